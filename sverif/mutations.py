"""Mutation corpus: (a) mutants -- each breaks one structural clause of a property while staying syntactically valid;
the named rule must report it;  (b) refactor variants -- behaviour-preserving edits that must stay silent.
Edits are exact text replacements (the anchor text must occur exactly once in the current file; otherwise the entry is
counted as stale, never as passed)."""

CORPUS = []

_D = "src/scenic/core/distributions.py"
_R = "src/scenic/core/regions.py"
_S = "src/scenic/core/scenarios.py"
_SC = "src/scenic/core/sample_checking.py"
_RQ = "src/scenic/core/requirements.py"
_OT = "src/scenic/core/object_types.py"
_V = "src/scenic/core/vectors.py"
_VE = "src/scenic/syntax/veneer.py"
_CO = "src/scenic/syntax/compiler.py"
_G = "src/scenic/syntax/scenic.gram"
_PR = "src/scenic/core/pruning.py"
_RL = "src/scenic/syntax/relations.py"
_SI = "src/scenic/core/simulators.py"
_DS = "src/scenic/core/dynamics/scenarios.py"
_IV = "src/scenic/core/dynamics/invocables.py"
_BH = "src/scenic/core/dynamics/behaviors.py"
_PP = "src/scenic/core/propositions.py"
_SE = "src/scenic/core/serialization.py"
_VI = "src/scenic/core/visibility.py"
_RD = "src/scenic/domains/driving/roads.py"
_LE = "src/scenic/core/lazy_eval.py"
_GE = "src/scenic/core/geometry.py"
_WS = "src/scenic/core/workspaces.py"
_TR = "src/scenic/syntax/translator.py"
_DOC = "docs/reference/specifiers.rst"


def M(prop, rule, file, old, new, ident):
    CORPUS.append({"prop": prop, "rule": rule, "file": file, "old": old, "new": new, "id": ident, "kind": "mutant"})


def RF(prop, file, old, new, ident):
    CORPUS.append({"prop": prop, "rule": "", "file": file, "old": old, "new": new, "id": ident, "kind": "refactor"})


# ---------------------------------------------------------------- C01
M("C01", "C01.draw", _D, "        return random.uniform(value[self.low], value[self.high])", "        return random.uniform(value[self.low], self.high)", "c01-range-raw-high")
M("C01", "C01.draw", _D, "        idx = value[self.index]\n", "        idx = self.index.sample()\n", "c01-multiplexer-resample-index")
M("C01", "C01.sample", _D, "            if q not in subsamples:\n                subsamples[q] = q.sample(subsamples) if needsSampling(q) else q", "            if True:\n                subsamples[q] = q.sample(subsamples) if needsSampling(q) else q", "c01-sampleall-no-memo")
M("C01", "C01.loop", _S, "            if random.random() <= req.prob:\n                req.active = True\n            else:\n                req.active = False", "            if random.random() >= req.prob:\n                req.active = True\n            else:\n                req.active = False", "c01-activation-flipped")
M("C01", "C01.loop", _S, "            iterations += 1\n            try:", "            try:", "c01-counter-dropped")
M("C01", "C01.loop", _S, "        scene = self._makeSceneFromSample(sample)\n        return scene, iterations", "        sample = Samplable.sampleAll(self.dependencies)\n        scene = self._makeSceneFromSample(sample)\n        return scene, iterations", "c01-unchecked-resample")
M("C01", "C01.clone", _D, "        return type(self)(self.low, self.high)\n\n    def bucket(self, buckets=None):\n        if buckets is None:\n            buckets = 5", "        return type(self)(self.high, self.low)\n\n    def bucket(self, buckets=None):\n        if buckets is None:\n            buckets = 5", "c01-range-clone-swapped")
M("C01", "C01.clone", _D, "        return type(self)(self.low, self.high, self.weights, self.emptyMessage)", "        return type(self)(self.low, self.high, None, self.emptyMessage)", "c01-discreterange-clone-drops-weights")
M("C01", "C01.weights", _D, "                if prob == 0:\n                    continue\n                options.append(opt)\n                weights.append(prob)", "                options.append(opt)\n                if prob == 0:\n                    continue\n                weights.append(prob)", "c01-options-misaligned")
M("C01", "C01.weights", _D, "            self.options = tuple(range(low, high + 1))", "            self.options = tuple(range(low, high))", "c01-discreterange-off-by-one")
RF("C01", _S, "        rejection = True\n        iterations = 0\n        while rejection is not None:", "        iterations = 0\n        rejection = True\n        while rejection is not None:", "c01-rf-reorder-init")
RF("C01", _D, "        return random.uniform(value[self.low], value[self.high])", "        lo, hi = value[self.low], value[self.high]\n        return random.uniform(lo, hi)", "c01-rf-range-locals")

# ---------------------------------------------------------------- C02
M("C02", "C02.skip", _SC, "        while reqs and reqs[-1].optional:\n            reqs.pop()", "        while len(reqs) > 3:\n            reqs.pop()", "c02-pop-nonoptional")
M("C02", "C02.skip", _SC, "        reqs = [req for req in self.requirements if req.active]", "        reqs = [req for req in self.requirements if req.active and not isinstance(req, IntersectionRequirement)]", "c02-filter-drops-intersections")
M("C02", "C02.skip", _SC, "            if rejected:\n                return req.violationMsg\n", "            if rejected:\n                return req.violationMsg\n            if metrics[1] > 1.0:\n                return None\n", "c02-early-accept-on-slow-check")
M("C02", "C02.optional", _RQ, "    def __init__(self, obj, container, optional=False):", "    def __init__(self, obj, container, optional=True):", "c02-containment-optional")
M("C02", "C02.polarity", _RQ, "        return not container.containsObject(obj)", "        return container.containsObject(obj)", "c02-containment-polarity")
M("C02", "C02.coverage", _S, "            if needsSampling(obj.allowCollisions) or not obj.allowCollisions\n        )", "            if not needsSampling(obj.allowCollisions) and not obj.allowCollisions\n        )", "c02-random-allowcollisions-skipped")
M("C02", "C02.coverage", _S, "            if not isinstance(container, AllRegion):\n                requirements.append(ContainmentRequirement(obj, container))", "            if not isinstance(container, AllRegion) and obj is not self.egoObject:\n                requirements.append(ContainmentRequirement(obj, container))", "c02-ego-not-contained")
M("C02", "C02.oneshot", _S, "        possible_occluders = tuple(\n            filter(lambda x: (needsSampling(x.occluding) or x.occluding), self.objects)\n        )", "        possible_occluders = filter(\n            lambda x: (needsSampling(x.occluding) or x.occluding), self.objects\n        )", "c02-occluders-oneshot")
RF("C02", _SC, "        reqs = [req for req in self.requirements if req.active]", "        reqs = [r for r in self.requirements if r.active]", "c02-rf-rename")
RF("C02", _SC, "        while reqs and reqs[-1].optional:\n            reqs.pop()", "        while reqs:\n            if not reqs[-1].optional:\n                break\n            reqs.pop()", "c02-rf-while-break")

# ---------------------------------------------------------------- C03
M("C03", "C03.weights", _R, "        areas = (triangle.area for triangle in triangles)", "        areas = (triangle.area for triangle in triangles if triangle.area > 1e-6)", "c03-areas-filtered")
M("C03", "C03.member", _R, "            if all(region._trueContainsPoint(point) for region in regs):\n                return point", "            if all(region._trueContainsPoint(point) for region in sampling_regions):\n                return point", "c03-intersection-partial-membership")
M("C03", "C03.member", _R, "        if random.random() < 1 - 1 / containment_count:", "        if random.random() < 1 / containment_count:", "c03-union-multiplicity")
M("C03", "C03.height", _R, "                return self.orient(Vector(x, y, self.z))", "                return self.orient(Vector(x, y, 0))", "c03-polygon-sample-z0")
M("C03", "C03.operand", _R, "            if hasattr(o, \"circumcircle\"):\n                center, radius = o.circumcircle\n                candidates = self.kdTree.query_ball_point(center, radius)\n            else:\n                # No cheap bound on the other region: consider every point.\n                candidates = range(len(self.kdTree.data))", "            center, radius = o.circumcircle\n            candidates = self.kdTree.query_ball_point(center, radius)", "c03-circumcircle-unguarded")
RF("C03", _R, "        areas = (triangle.area for triangle in triangles)", "        areas = [t.area for t in triangles]", "c03-rf-areas-list")

# ---------------------------------------------------------------- C04
M("C04", "C04.polarity", _R, "                if point_distance < s_inradius + o_inradius:\n                    return True", "                if point_distance < s_circumradius + o_circumradius:\n                    return True", "c04-overlap-from-circumradii")
M("C04", "C04.polarity", _R, "                s_inradius, s_circumradius = self._interiorPointRadii", "                s_circumradius, s_inradius = self._interiorPointRadii", "c04-radii-swapped")
M("C04", "C04.polarity", _R, "            if center_distance > self._circumradius + other._circumradius:\n                return False", "            if center_distance < self._circumradius + other._circumradius:\n                return False", "c04-disjoint-flipped")
M("C04", "C04.polarity", _R, "            if region_distance > obj_circumradius:\n                return True", "            if region_distance < obj_circumradius:\n                return True", "c04-contains-flipped")
M("C04", "C04.polarity", _R, "        hullPoly = obj.occupiedSpace._boundingPolygonHull\n        if self.polygons.contains(hullPoly):\n            return True", "        hullPoly = obj.occupiedSpace._boundingPolygonHull\n        if not self.polygons.contains(hullPoly):\n            return False", "c04-hull-not-contained-false")
M("C04", "C04.planar", _OT, "            if abs(self.position.z - other.position.z) > (self.height + other.height) / 2:\n                return False", "            if abs(self.position.z - other.position.z) > (self.height + other.height):\n                return False", "c04-planar-height-test")
M("C04", "C04.planar", _OT, "        if self._isPlanarBox and (isinstance(other, Object) and other._isPlanarBox):", "        if self._isPlanarBox and isinstance(other, Object):", "c04-planar-other-unchecked")
RF("C04", _R, "            if center_distance > self._circumradius + other._circumradius:\n                return False", "            if self._circumradius + other._circumradius < center_distance:\n                return False", "c04-rf-swap-compare")

# ---------------------------------------------------------------- C05
M("C05", "C05.lift", _V, "            return makeDelayedFunctionCall(helper, (self,) + args, {})", "            return makeDelayedFunctionCall(helper, args, {})", "c05-vectorop-drops-self")
M("C05", "C05.lift", _D, "            return makeDelayedFunctionCall(helper, (self,) + args, kwargs)\n        else:\n            return method(self, *args, **kwargs)\n\n    return helper\n\n\nclass AttributeDistribution", "            return makeDelayedFunctionCall(helper, (self,) + args, {})\n        else:\n            return method(self, *args, **kwargs)\n\n    return helper\n\n\nclass AttributeDistribution", "c05-distmethod-drops-kwargs")
M("C05", "C05.rebuild", _D, "        return SliceDistribution(start, stop, step)", "        return SliceDistribution(start, step, stop)", "c05-slice-swapped")
M("C05", "C05.rebuild", _D, "        low = valueInContext(self.low, context)\n        high = valueInContext(self.high, context)\n        return Range(low, high)", "        low = valueInContext(self.low, context)\n        high = self.high\n        return Range(low, high)", "c05-range-raw-high")
M("C05", "C05.shortcut", _D, "    elif op in (\"__truediv__\", \"__pow__\"):", "    elif op in (\"__truediv__\", \"__rtruediv__\", \"__pow__\"):", "c05-rtruediv-identity")
M("C05", "C05.shortcut", _D, "    if op in (\"__add__\", \"__radd__\", \"__sub__\"):", "    if op in (\"__add__\", \"__radd__\", \"__sub__\", \"__rsub__\"):", "c05-rsub-identity")
M("C05", "C05.support", _D, "            elif self.operator == \"__sub__\":\n                l = l1 - r2\n                r = r1 - l2", "            elif self.operator == \"__sub__\":\n                l = l1 - l2\n                r = r1 - r2", "c05-sub-interval")
M("C05", "C05.support", _D, "            if l is None or r is None:\n                return None, None\n            if self.operator == \"__neg__\":", "            if self.operator == \"__neg__\":", "c05-neg-none")
M("C05", "C05.support", _GE, "@distributionFunction(support=_hypotSupport)\ndef hypot(*args) -> float:", "@monotonicDistributionFunction\ndef hypot(*args) -> float:", "c05-hypot-monotonic")
M("C05", "C05.names", _V, "        bx, by, bz = other.x, other.y, other.z", "        bx, by, ba = other.x, other.y, other.z", "c05-cross-typo")
M("C05", "C05.support", _D, "            if self.operator == \"__neg__\":\n                return -r, -l", "            if self.operator == \"__neg__\":\n                return -l, -r", "c05-neg-unswapped")
M("C05", "C05.support", _D, "                    return 0, max(-l, r)", "                    return 0, max(l, r)", "c05-abs-straddle")
M("C05", "C05.support", _D, "                if r < 0:\n                    return -r, -l", "                if l < 0:\n                    return -r, -l", "c05-abs-wrong-sign-test")
M("C05", "C05.support", _D, "                    r = r1 / l2 if r1 >= 0 else r1 / r2", "                    r = r1 / l2", "c05-div-upper-unsigned")
M("C05", "C05.support", _D, "                if l2 > 0:\n                    l = l1 / r2", "                if l2 >= 0:\n                    l = l1 / r2", "c05-div-zero-divisor")
RF("C05", _D, "                if l2 > 0:\n                    l = l1 / r2 if l1 >= 0 else l1 / l2\n                    r = r1 / l2 if r1 >= 0 else r1 / r2\n                else:\n                    l, r = None, None  # TODO improve", "                if l2 <= 0:\n                    return None, None\n                if l1 < 0:\n                    l = l1 / l2\n                else:\n                    l = l1 / r2\n                r = r1 / l2 if 0 <= r1 else r1 / r2", "c05-rf-div-restructured")
RF("C05", _D, "            elif self.operator == \"__sub__\":\n                l = l1 - r2\n                r = r1 - l2", "            elif self.operator == \"__sub__\":\n                l = -r2 + l1\n                r = -l2 + r1", "c05-rf-sub-commuted")

# ---------------------------------------------------------------- C06
M("C06", "C06.table", _VE, "        props[\"parentOrientation\"] = 2\n", "        props[\"parentOrientation\"] = 3\n", "c06-on-priority")
M("C06", "C06.table", _VE, "        new = DelayedArgument({axis, \"contactTolerance\"}, val)", "        new = DelayedArgument({axis}, val)", "c06-object-variant-deps")
M("C06", "C06.table", _DOC, "\t* :prop:`position` with priority 1\n\t* :prop:`parentOrientation` with priority 3\n\n**Dependencies**: None\n\nPositions the object at the given coordinates in the local coordinate system of :scenic:`ego`", "\t* :prop:`position` with priority 1\n\t* :prop:`parentOrientation` with priority 2\n\n**Dependencies**: None\n\nPositions the object at the given coordinates in the local coordinate system of :scenic:`ego`", "c06-doc-offsetby-priority")
M("C06", "C06.deps", _VE, "        DelayedArgument({\"position\", \"parentOrientation\"}, helper),\n    )\n\n\ndef FacingDirectlyToward(pos):", "        DelayedArgument({\"parentOrientation\"}, helper),\n    )\n\n\ndef FacingDirectlyToward(pos):", "c06-facingtoward-missing-position-dep")
M("C06", "C06.deps", _OT, "        \"baseOffset\": PropertyDefault(\n            (\"height\",), {}, lambda self: Vector(0, 0, -self.height / 2)\n        ),", "        \"baseOffset\": PropertyDefault(\n            (), {}, lambda self: Vector(0, 0, -self.height / 2)\n        ),", "c06-baseoffset-undeclared-dep")
M("C06", "C06.errors", _OT, "                        raise SpecifierError(\n                            f'property \"{prop}\" specified twice with the same priority'\n                        )", "                        raise ValueError(\n                            f'property \"{prop}\" specified twice with the same priority'\n                        )", "c06-wrong-error-class")
M("C06", "C06.fold", _OT, "                    if spec.priorities[prop] < priorities[prop]:\n                        properties[prop] = spec\n                        priorities[prop] = spec.priorities[prop]\n                else:\n                    # This property has not already been specified, so we should initialize it.", "                    if spec.priorities[prop] <= priorities[prop]:\n                        properties[prop] = spec\n                else:\n                    # This property has not already been specified, so we should initialize it.", "c06-fold-priority-not-updated")
M("C06", "C06.heading2d", _OT, "            if spec.name == \"With(heading)\" and tuple(spec.priorities) == (\"heading\",):", "            if spec.name == \"With heading\" and tuple(spec.priorities) == (\"heading\",):", "c06-2d-name-mismatch")
RF("C06", _VE, "    props = {\"position\": 1}\n    values = {\"position\": pos}\n    if alwaysProvidesOrientation(region):\n        props[\"parentOrientation\"] = 3\n        values[\"parentOrientation\"] = region.orientation[pos]\n    return Specifier(\"In\", props, values)", "    priorities = {\"position\": 1}\n    values = {\"position\": pos}\n    if alwaysProvidesOrientation(region):\n        priorities[\"parentOrientation\"] = 3\n        values[\"parentOrientation\"] = region.orientation[pos]\n    return Specifier(\"In\", priorities, values)", "c06-rf-rename-props")

# ---------------------------------------------------------------- C07
M("C07", "C07.directional", _VE, "            self.width / 2 + dx + dims[0] / 2 + tol, dy, dz\n        ),", "            self.width / 2 + dx + dims[1] / 2 + tol, dy, dz\n        ),", "c07-right-wrong-dim")
M("C07", "C07.directional", _VE, "            dx, -self.length / 2 - dy - dims[1] / 2 - tol, dz\n        ),", "            dx, -self.length / 2 + dy - dims[1] / 2 - tol, dz\n        ),", "c07-behind-sign")
M("C07", "C07.directional", _VE, "        \"height\",\n        lambda dist: (0, 0, dist),\n        lambda self, dims, tol, dx, dy, dz: Vector(\n            dx, dy, self.height / 2 + dz + dims[2] / 2 + tol\n        ),", "        \"height\",\n        lambda dist: (0, dist, 0),\n        lambda self, dims, tol, dx, dy, dz: Vector(\n            dx, dy, self.height / 2 + dz + dims[2] / 2 + tol\n        ),", "c07-above-tocomponents")
M("C07", "C07.directional", _VE, "        if dist is None:\n            return ct / 2\n        else:\n            return 0", "        if dist is None:\n            return ct\n        else:\n            return 0", "c07-contact-offset")
M("C07", "C07.corners", _OT, "        return self.relativize(Vector(-self.hw, self.hl, self.hh))\n\n    @cached_property\n    def topFrontRight(self):", "        return self.relativize(Vector(self.hw, self.hl, self.hh))\n\n    @cached_property\n    def topFrontRight(self):", "c07-topfrontleft-sign")
M("C07", "C07.corners", _OT, "            self.relativePosition(Vector(hw, -hl, -hh)),\n        )", "            self.relativePosition(Vector(hw, -hl, hh)),\n        )", "c07-corners-duplicate")
M("C07", "C07.binding", _VE, "def Beyond(pos, offset, fromPt=None):", "def Beyond(pos, offset, fromPoint=None):\n    fromPt = fromPoint", "c07-beyond-keyword-renamed")
M("C07", "C07.fields", _G, "s.RelativeHeadingOp(target=e1, base=e2, LOCATIONS)", "s.RelativeHeadingOp(target=e1, origin=e2, LOCATIONS)", "c07-grammar-field-typo")
M("C07", "C07.facing", _VE, "        rotated = direction.applyRotation(context.parentOrientation.inverse)\n        sphericalCoords = (\n            rotated.sphericalCoordinates()\n        )  # Ignore the rho, sphericalCoords[0]", "        rotated = direction\n        sphericalCoords = (\n            rotated.sphericalCoordinates()\n        )  # Ignore the rho, sphericalCoords[0]", "c07-facingtoward-ignores-parent")
M("C07", "C07.const", _CO, "            right=ast.Constant(0.017453292519943295),", "            right=ast.Constant(0.01745329251994),", "c07-deg-constant")
RF("C07", _VE, "            self.width / 2 + dx + dims[0] / 2 + tol, dy, dz\n        ),", "            dx + (self.width + dims[0]) / 2 + tol, dy, dz\n        ),", "c07-rf-right-regrouped")

# ---------------------------------------------------------------- C08
M("C08", "C08.cmpop", _RL, "        if not isinstance(op, (Lt, LtE, Eq)):\n            return None, None, None\n", "        if not isinstance(op, (Lt, LtE, Eq, NotEq)):\n            return None, None, None\n", "c08-noteq-as-bound")
M("C08", "C08.cmpop", _RL, "                    return (-const + match, const + match, target)", "                    return (-const - match, const - match, target)", "c08-abs-sub-algebra")
M("C08", "C08.polarity", _PR, "            minRadius, _ = supportInterval(obj.inradius)", "            _, minRadius = supportInterval(obj.inradius)", "c08-erosion-upper-radius")
M("C08", "C08.polarity", _PR, "                _, maxDistance = supportInterval(offset.norm())\n        else:\n            maxDistance = 0\n\n        # Compute the minimum radius", "                maxDistance, _ = supportInterval(offset.norm())\n        else:\n            maxDistance = 0\n\n        # Compute the minimum radius", "c08-erosion-lower-offset")
M("C08", "C08.polarity", _PR, "                return field, lower + ol, upper + oh", "                return field, lower + oh, upper + ol", "c08-heading-offsets-swapped")
M("C08", "C08.subset", _PR, "            candidateBase = currBase.intersect(bufferHelper(ego.visibleRegion))", "            candidateBase = bufferHelper(ego.visibleRegion)", "c08-visible-region-replaces-base")
M("C08", "C08.subset", _PR, "                z=getattr(base, \"z\", 0),\n", "", "c08-rh-prune-drops-z")
M("C08", "C08.progress", _PR, "                    eroded_container = container._erodeOverapproximate(\n                        maxErosion, current_pitch\n                    )", "                    eroded_container = container._erodeOverapproximate(\n                        maxErosion, PRUNING_PITCH\n                    )", "c08-erosion-constant-pitch")
M("C08", "C08.progress", _R, "            iterations = math.ceil(minBuffer / target_pitch) + 1", "            iterations = math.floor(minBuffer / target_pitch) + 1", "c08-buffer-floor")
M("C08", "C08.room", _R, "            dense = numpy.pad(dense, iterations)\n            transform = transform @ translation_matrix([-iterations] * 3)", "            pass", "c08-dilation-no-padding")
M("C08", "C08.none", _PR, "    if maxRadius is None:\n        return float(\"inf\")", "    if maxRadius is None:\n        return None", "c08-visibilitybound-none")
RF("C08", _PR, "            minRadius, _ = supportInterval(obj.inradius)", "            minRadius, _unused = supportInterval(obj.inradius)", "c08-rf-unused-name")

# ---------------------------------------------------------------- C09
M("C09", "C09.capture", _G, "scenic_deg: a=term \"deg\" { s.DegOp(operand=a, LOCATIONS) }", "scenic_deg: a=term [\"deg\"] { s.DegOp(operand=a, LOCATIONS) }", "c09-deg-keyword-optional")
M("C09", "C09.identity", _CO, "        if self.inInterruptBlock and not self.inLoop:\n            if not self.usedBreak:", "        if not self.inLoop:\n            if not self.usedBreak:", "c09-break-rewritten-everywhere")
M("C09", "C09.identity", _CO, "trackedNames = {\"ego\", \"workspace\"}", "trackedNames = {\"ego\", \"workspace\", \"scene\"}", "c09-extra-tracked-name")
M("C09", "C09.identity", _CO, "            elif newFunc.id == \"int\":\n                newFunc.id = \"_toIntScenic\"", "            elif newFunc.id == \"int\":\n                newFunc.id = \"_toIntScenic\"\n            elif newFunc.id == \"abs\":\n                newFunc.id = \"_toFloatScenic\"", "c09-abs-renamed")
M("C09", "C09.lineno", _G, "s.Override(target=e, specifiers=ss, LOCATIONS)", "s.Override(target=e, specifiers=ss)", "c09-override-unlocated")
M("C09", "C09.lineno", _G, "    | 'yield' 'from' a=expression { ast.YieldFrom(value=a, LOCATIONS) }", "    | 'yield' 'from' a=expression { ast.YieldFrom(value=a) }", "c09-yieldfrom-unlocated")

# ---------------------------------------------------------------- C10
M("C10", "C10.visitors", _CO, "    def visit_FieldAtOp(self, node: s.FieldAtOp):", "    def visit_FieldAt(self, node: s.FieldAtOp):", "c10-visitor-renamed")
M("C10", "C10.errargs", _G, "        return EXPR_NAME_MAPPING.get(node_t, \"expression\")", "        return EXPR_NAME_MAPPING[node_t]", "c10-get-expr-name-keyerror")
M("C10", "C10.raises", _CO, "            raise self.makeSyntaxError(\n                \"Cannot use `yield` inside a compose/behavior block\", node\n            )", "            raise ValueError(\"Cannot use `yield` inside a compose/behavior block\")", "c10-compiler-valueerror")
M("C10", "C10.errargs", _G, "        if mark.end != name.start:", "        if mark.lineno != name.lineno:", "c10-tokeninfo-lineno")
M("C10", "C10.errargs", _G, "                conversion.string.encode()[0]", "                conversion.decode()[0]", "c10-token-decode")
M("C10", "C10.deactivate", _TR, "    finally:\n        veneer.deactivate()\n        if not _cacheImports:", "    finally:\n        if not _cacheImports:", "c10-no-deactivate")
M("C10", "C10.loops", _G, "scenic_class_statements[list]: a=scenic_class_statement+ {", "scenic_class_statements[list]: a=([scenic_class_statement])+ {", "c10-nullable-repeat")

# ---------------------------------------------------------------- C11
M("C11", "C11.chain", _G, "    | a=scenic_above_until 'until' b=scenic_above_until { s.UntilOp(a, b, LOCATIONS) }", "    | a=scenic_above_until 'until' b=scenic_above_until { s.UntilOp(b, a, LOCATIONS) }", "c11-until-swapped-grammar")
M("C11", "C11.chain", _CO, "            func=ast.Name(id=\"Until\", ctx=loadCtx),\n            args=[self.visit(left), self.visit(right)],", "            func=ast.Name(id=\"Until\", ctx=loadCtx),\n            args=[self.visit(right), self.visit(left)],", "c11-until-swapped-compiler")
M("C11", "C11.chain", _VE, "def Eventually(req):\n    return propositions.Eventually(req)", "def Eventually(req):\n    return propositions.Always(req)", "c11-eventually-is-always")
M("C11", "C11.chain", _PP, "        ltl_node = rv_ltl.Implies(lhs.ltl_node, rhs.ltl_node)", "        ltl_node = rv_ltl.Implies(rhs.ltl_node, lhs.ltl_node)", "c11-implies-swapped-ltl")
M("C11", "C11.chain", _PP, "    def __str__(self):\n        return f\"({self.lhs} until {self.rhs})\"\n\n    @property\n    def children(self):\n        return [self.lhs, self.rhs]", "    def __str__(self):\n        return f\"({self.lhs} until {self.rhs})\"\n\n    @property\n    def children(self):\n        return [self.lhs]", "c11-until-child-dropped")
M("C11", "C11.classes", _PP, "    def evaluate(self):\n        return not self.lhs.evaluate() or self.rhs.evaluate()", "    def evaluate(self):\n        return self.lhs.evaluate() and self.rhs.evaluate()", "c11-implies-meaning")
M("C11", "C11.classes", _PP, "        ltl_node = rv_ltl.Next(req.ltl_node)\n        super().__init__(ltl_node)\n        self.req = req\n        self.is_temporal = True", "        ltl_node = rv_ltl.Next(req.ltl_node)\n        super().__init__(ltl_node)\n        self.req = req", "c11-next-not-temporal")
M("C11", "C11.monitor", _DS, "            if result == rv_ltl.B4.FALSE:\n                raise RejectSimulationException(str(m))", "            if result == rv_ltl.B4.PRESUMABLY_FALSE:\n                raise RejectSimulationException(str(m))", "c11-reject-on-presumably-false")
M("C11", "C11.monitor", _DS, "        if self._requirementMonitors is not None:\n            self._requirementMonitors.append(dreq.toMonitor())", "        pass", "c11-dynamic-require-unmonitored")
M("C11", "C11.monitor", _RQ, "        self.monitor = self.proposition.create_monitor()\n        self.lastValue = rv_ltl.B4.TRUE", "        self.monitor = self.proposition.create_monitor()\n        self.lastValue = rv_ltl.B4.FALSE", "c11-initial-verdict")

# ---------------------------------------------------------------- C12
M("C12", "C12.order", _SI, "            # Record current state of the simulation\n            self.recordCurrentState()\n\n            # Run monitors\n            newReason = dynamicScenario._runMonitors()\n            if newReason is not None:\n                terminationReason = newReason\n                terminationType = TerminationType.terminatedByMonitor\n", "            # Run monitors\n            newReason = dynamicScenario._runMonitors()\n            if newReason is not None:\n                terminationReason = newReason\n                terminationType = TerminationType.terminatedByMonitor\n\n            # Record current state of the simulation\n            self.recordCurrentState()\n", "c12-record-after-monitors")
M("C12", "C12.order", _SI, "            self.step()\n            self.currentTime += 1\n            self.updateObjects()", "            self.step()\n            self.updateObjects()\n            self.currentTime += 1", "c12-clock-after-refresh")
M("C12", "C12.scenario", _DS, "            and self._elapsedTime >= self._timeLimitInSteps", "            and self._elapsedTime > self._timeLimitInSteps", "c12-time-limit-off-by-one")
M("C12", "C12.logs", _SI, "            self.actionSequence.append(allActions)\n            self.executeActions(allActions)", "            if allActions:\n                self.actionSequence.append(allActions)\n            self.executeActions(allActions)", "c12-conditional-action-log")
M("C12", "C12.logs", _SI, "            if not set(self.agents) == set(schedule):\n                raise RuntimeError(\"Simulator schedule does not contain all agents\")\n", "", "c12-schedule-unchecked")
RF("C12", _SI, "            self.step()\n            self.currentTime += 1\n            self.updateObjects()", "            self.step()\n            self.currentTime += 1\n            # refresh\n            self.updateObjects()", "c12-rf-comment")

# ---------------------------------------------------------------- C13
M("C13", "C13.priority", _CO, "            [ast.Name(n, ast.Load()) for n in reversed(handlerNames)], ast.Load()", "            [ast.Name(n, ast.Load()) for n in handlerNames], ast.Load()", "c13-handlers-not-reversed")
M("C13", "C13.priority", _IV, "            if interrupt.isEnabled or interrupt.isRunning:\n                block = interrupt\n                break", "            if interrupt.isEnabled or interrupt.isRunning:\n                block = interrupt", "c13-scan-no-break")
M("C13", "C13.resume", _IV, "            result = self.runningIterator.send(None)\n            return (result, False)", "            result = self.runningIterator.send(None)\n            self.runningIterator = None\n            return (result, False)", "c13-iterator-cleared-each-step")
M("C13", "C13.invariants", _IV, "            yield result\n            behavior.checkInvariants(agent, *behavior._args, **behavior._kwargs)", "            yield result", "c13-no-invariant-recheck")
M("C13", "C13.invariants", _CO, "        return [\n            invokeAction,\n            checkInvariants,\n        ]", "        return [\n            invokeAction,\n        ]", "c13-invocation-without-invariants")
M("C13", "C13.abandon", _BH, "            try:\n                yield from sub._runningIterator\n            finally:\n                if sub._isRunning:\n                    sub._stop()", "            yield from sub._runningIterator\n            if sub._isRunning:\n                sub._stop()", "c13-sub-not-stopped-on-abandon")
M("C12", "C12.scenario", _IV, "                lambda: veneer.currentSimulation.currentTime - startTime >= timeLimit", "                lambda: veneer.currentSimulation.currentTime - startTime > timeLimit", "c13-duration-off-by-one")

# ---------------------------------------------------------------- C14
M("C14", "C14.globals", _VE, "        _globalParameters = {}\n        inInitialScenario = True\n", "        _globalParameters = {}\n", "c14-ininitialscenario-not-reset")
M("C14", "C14.globals", _VE, "    currentSimulation = None\n    currentScenario = None\n    runningScenarios = []\n    currentBehavior = None", "    currentSimulation = None\n    currentScenario = None\n    currentBehavior = None", "c14-runningscenarios-leak")
M("C14", "C14.ctxmgr", _VE, "    evaluatingGuard = True\n    try:\n        yield\n    finally:\n        evaluatingGuard = False", "    evaluatingGuard = True\n    yield\n    evaluatingGuard = False", "c14-guard-flag-no-finally")
M("C14", "C14.cleanup", _SI, "        self.objects = []\n        self.agents = []\n", "        self.objects = []\n", "c14-agents-unassigned")
M("C14", "C14.cleanup", _SI, "            finally:\n                # Always roll back the global state, even if the cleanup above fails.\n                veneer.endSimulation(self)", "                veneer.endSimulation(self)\n            finally:\n                pass", "c14-endsimulation-skippable")
M("C14", "C14.override", _DS, "        if obj in self._overrides:\n            # keep the earliest saved value of each property overridden so far\n            oldVals.update(self._overrides[obj])\n        self._overrides[obj] = oldVals", "        if obj not in self._overrides:\n            self._overrides[obj] = oldVals", "c14-override-record-dropped")

# ---------------------------------------------------------------- C15
M("C15", "C15.order", _DS, "        self._requirementDeps = {}  # ordered set (keys only), for reproducible sampling", "        self._requirementDeps = set()", "c15-requirementdeps-set")
M("C15", "C15.order", _RQ, "        return CompiledRequirement(self, closure, tuple(deps), condition)", "        return CompiledRequirement(self, closure, frozenset(deps), condition)", "c15-deps-frozenset")
M("C15", "C15.rng", _S, "            random.setstate(rand_state)\n            numpy.random.set_state(np_state)", "            random.setstate(rand_state)", "c15-numpy-state-not-restored")
M("C15", "C15.private", _VI, "        rng = np.random.default_rng(seed=42)", "        rng = np.random.default_rng()", "c15-unseeded-ray-shuffle")

# ---------------------------------------------------------------- C16
M("C16", "C16.dispatch", _R, "    def union(self, other, triedReversed=False, buf=0):\n        # If one of the regions isn't fixed, fall back on default behavior\n        if isLazy(self) or isLazy(other):\n            return super().union(other, triedReversed)", "    def union(self, other, triedReversed=False, buf=0):\n        # If one of the regions isn't fixed, fall back on default behavior\n        if isLazy(self) or isLazy(other):\n            return super().union(other)", "c16-union-drops-triedreversed")
M("C16", "C16.dispatch", _R, "        if triedReversed is False and not isinstance(other, PointSetRegion):\n            return other.intersect(self)", "        if triedReversed is False:\n            return other.intersect(self)", "c16-pointset-unflagged-retry")
M("C16", "C16.override", _R, "    def containsObject(self, obj):\n        raise NotImplementedError\n\n    def containsRegionInner(self, reg, tolerance):\n        raise NotImplementedError\n\n    def distanceTo(self, point):\n        raise NotImplementedError\n\n    def projectVector(self, point, onDirection):\n        raise NotImplementedError\n\n    def uniformPointInner(self):\n        # First generate", "    def containsObject(self, obj):\n        raise NotImplementedError\n\n    def containsRegionInner(self, reg):\n        raise NotImplementedError\n\n    def distanceTo(self, point):\n        raise NotImplementedError\n\n    def projectVector(self, point, onDirection):\n        raise NotImplementedError\n\n    def uniformPointInner(self):\n        # First generate", "c16-voxel-arity")
M("C16", "C16.names", _R, "        if isinstance(reg, MeshRegion):\n            return buffered_polygons.contains(reg._boundingPolygon)", "        if isinstance(other, MeshRegion):\n            return buffered_polygons.contains(reg._boundingPolygon)", "c16-footprint-unbound-other")
M("C16", "C16.z", _R, "        return PolygonalRegion(polygon=union, orientation=orientation, z=self.z)", "        return PolygonalRegion(polygon=union, orientation=orientation)", "c16-union-z-dropped")
M("C16", "C16.z", _R, "        if point.z == self.z:\n            return max(0, point.distanceTo(self.center) - self.radius)", "        if point.z == 0:\n            return max(0, point.distanceTo(self.center) - self.radius)", "c16-circle-z-literal")
M("C16", "C16.rebuild", _R, "        return DifferenceRegion(\n            regionA,\n            regionB,\n            sampler=self.sampler,\n            name=self.name,\n        )", "        return DifferenceRegion(\n            regionB,\n            regionA,\n            sampler=self.sampler,\n            name=self.name,\n        )", "c16-difference-operands-swapped")
M("C16", "C16.argmin", _R, "        distances = numpy.linalg.norm(\n            intersection_data - numpy.asarray(point), axis=1\n        )", "        distances = numpy.linalg.norm(intersection_data - numpy.asarray(point))", "c16-argmin-scalar-norm")
M("C16", "C16.algebra", _R, "    def intersect(self, other, triedReversed=False):\n        return other\n\n    def intersects(self, other, triedReversed=False):\n        return not isinstance(other, EmptyRegion)", "    def intersect(self, other, triedReversed=False):\n        return self\n\n    def intersects(self, other, triedReversed=False):\n        return not isinstance(other, EmptyRegion)", "c16-everywhere-intersect")
M("C16", "C16.delegate", _WS, "        return self.region.projectVector(point, onDirection)", "        raise self.region.projectVector(point, onDirection)", "c16-workspace-raise")
RF("C16", _R, "    def union(self, other, triedReversed=False, buf=0):\n        # If one of the regions isn't fixed, fall back on default behavior\n        if isLazy(self) or isLazy(other):\n            return super().union(other, triedReversed)", "    def union(self, other, triedReversed=False, buf=0):\n        # If one of the regions isn't fixed, fall back on default behavior\n        if isLazy(self) or isLazy(other):\n            return super().union(other, triedReversed=triedReversed)", "c16-rf-keyword-forward")

# ---------------------------------------------------------------- C17
M("C17", "C17.frames", _VI, "        target_vertex = np.array((target_loc - position).coordinates)\n        if orientation is not None:\n            target_vertex = orientation._inverseRotation.apply([target_vertex])[0]\n", "        if orientation is not None:\n            target_loc = orientation._inverseRotation.apply([target_loc])[0]\n        target_vertex = np.array((target_loc - position).coordinates)\n", "c17-rotate-before-translate")
M("C17", "C17.occluders", _VI, "                if occ_distance <= target_distance:\n                    # The ray is occluded\n                    return False", "                if occ_distance >= target_distance:\n                    # The ray is occluded\n                    return False", "c17-occlusion-comparison")
M("C17", "C17.occluders", _VI, "                candidate_rays = candidate_rays - occluded_rays", "                candidate_rays = candidate_rays | occluded_rays", "c17-occluder-adds-rays")
M("C17", "C17.wrappers", _OT, "        true_position = self.position.offsetLocally(self.orientation, self.cameraOffset)\n        return canSee(", "        true_position = self.position + self.cameraOffset\n        return canSee(", "c17-camera-offset-global-frame")
M("C17", "C17.plumbing", _VE, "            obj for obj in objects if obj.occluding and X is not obj and Y is not obj", "            obj for obj in objects if obj.occluding and X is not obj", "c17-target-occludes-itself")

# ---------------------------------------------------------------- C18
M("C18", "C18.symmetry", _V, "        return cls(*struct.unpack(\"<ddd\", stream.read(24)))", "        return cls(*struct.unpack(\"<fff\", stream.read(12)))", "c18-vector-format")
M("C18", "C18.symmetry", _SE, "        return int.from_bytes(_readExactly(stream, 2), byteorder=\"little\", signed=True)", "        return int.from_bytes(_readExactly(stream, 2), byteorder=\"little\", signed=False)", "c18-int16-unsigned")
M("C18", "C18.symmetry", _SE, "    if 0 <= value <= 252:\n        stream.write(bytes([value]))", "    if 0 <= value <= 253:\n        stream.write(bytes([value]))", "c18-small-int-threshold")
M("C18", "C18.failclosed", _SE, "    length = readInt(stream)\n    return _readExactly(stream, length)", "    length = readInt(stream)\n    return stream.read(length)", "c18-readbytes-short")
M("C18", "C18.errors", _SE, "        try:\n            sample = self.readSample(scenario.dependencies)\n            scene = scenario._makeSceneFromSample(sample)\n        except SerializationError:\n            raise\n        except Exception as e:\n            # e.g. a corrupted option index, or a value violating an internal assertion\n            raise SerializationError(\"serialized Scene is corrupted\") from e\n        return scene", "        sample = self.readSample(scenario.dependencies)\n        scene = scenario._makeSceneFromSample(sample)\n        return scene", "c18-readscene-unwrapped")
M("C18", "C18.symmetry", _SE, "        if verify and optionsHash != scenario.compileOptions.hash:", "        if verify and False:", "c18-options-hash-unchecked")
M("C18", "C18.divergence", _SI, "            diff = abs(actual - expected)", "            diff = actual - expected", "c18-signed-divergence")
M("C18", "C18.record", _D, "            subsamples[dist] = value\n            sim.recordSampledValue(dist, subsamples)\n            return value", "            subsamples[dist] = value\n            if not sim.replayCanContinue():\n                return value\n            sim.recordSampledValue(dist, subsamples)\n            return value", "c18-unrecorded-sample")

# ---------------------------------------------------------------- C19
M("C19", "C19.enabled", _IV, "                for sub, weight in opts.items():\n                    if sub._isEnabledForAgent(agent):\n                        enabled[sub] = weight", "                for sub, weight in opts.items():\n                    enabled[sub] = weight", "c19-disabled-items-eligible")
M("C19", "C19.enabled", _IV, "                for sub in opts:\n                    if sub._isEnabledForAgent(agent):\n                        enabled[sub] = 1", "                for i, sub in enumerate(opts):\n                    if sub._isEnabledForAgent(agent):\n                        enabled[sub] = i + 1", "c19-sequence-weights")
M("C19", "C19.schedule", _IV, "                    choice = pickEnabledInvocable(subs)\n                    subs.pop(choice)\n                    yield from self._invokeInner(agent, (choice,))", "                    choice = pickEnabledInvocable(subs)\n                    yield from self._invokeInner(agent, (choice,))\n                    subs.popitem()", "c19-shuffle-removes-wrong-item")
M("C19", "C19.schedule", _CO, "        return self.makeDoLike(node, node.elts, schedule=\"shuffle\")", "        return self.makeDoLike(node, node.elts, schedule=\"choose\")", "c19-shuffle-compiled-as-choose")
M("C19", "C19.runtime", _D, "                value = dist.sample(subsamples)\n            # Save the value for future replay", "                value = dist.sample()\n            # Save the value for future replay", "c19-runtime-sample-own-map")

# ---------------------------------------------------------------- C20
M("C20", "C20.guard", _RD, "            if optionsDigest and optionsDigest != cachedOptionsDigest:", "            if False and optionsDigest != cachedOptionsDigest:", "c20-options-digest-ignored")
M("C20", "C20.guard", _RD, "        optionsDigest = deterministicHash(kwargs, digest_size=8)", "        optionsDigest = deterministicHash({\"tolerance\": kwargs.get(\"tolerance\")}, digest_size=8)", "c20-options-digest-partial")
M("C20", "C20.guard", _RD, "            except cls.DigestMismatchError:\n                verbosePrint(\n                    \"Cached network does not match original file or map options; ignoring it.\"\n                )", "            except cls.DigestMismatchError:\n                return cls.fromPickle(pickledPath)", "c20-mismatch-still-loads-cache")
M("C20", "C20.layout", _RD, "            cachedOptionsDigest = f.read(8)\n            if len(cachedOptionsDigest) != 8:", "            cachedOptionsDigest = f.read(4)\n            if len(cachedOptionsDigest) != 4:", "c20-options-digest-size")
M("C20", "C20.layout", _RD, "            f.write(digest)  # digest of original map file\n            f.write(optionsDigest)  # digest of map options", "            f.write(optionsDigest)  # digest of map options\n            f.write(digest)  # digest of original map file", "c20-fields-swapped")
M("C20", "C20.reconnect", _RD, "        for elem in itertools.chain(self.lanes, self.intersections):\n            for maneuver in elem.maneuvers:\n                reconnect(maneuver)", "        for elem in self.intersections:\n            for maneuver in elem.maneuvers:\n                reconnect(maneuver)", "c20-lane-maneuvers-not-reconnected")

# --- set-algebra formulas (truth tables) -----------------------------------------------------------------------------
_DIFF_CP = "    def containsPoint(self, point):\n        return self.footprint.regionA.containsPoint(\n            point\n        ) and not self.footprint.regionB.containsPoint(point)"
M("C16", "C16.algebra", _R, _DIFF_CP, "    def containsPoint(self, point):\n        return self.footprint.regionA.containsPoint(\n            point\n        ) or not self.footprint.regionB.containsPoint(point)", "c16-difference-or")
M("C16", "C16.algebra", _R, "        return any(region.containsPoint(point) for region in self.footprint.regions)", "        return all(region.containsPoint(point) for region in self.footprint.regions)", "c16-union-all")
RF("C16", _R, _DIFF_CP, "    def containsPoint(self, point):\n        inA = self.footprint.regionA.containsPoint(point)\n        if not inA:\n            return False\n        if self.footprint.regionB.containsPoint(point):\n            return False\n        return True", "c16-rf-difference-early-returns")
RF("C16", _R, _DIFF_CP, "    def containsPoint(self, point):\n        return not (\n            not self.footprint.regionA.containsPoint(point)\n            or self.footprint.regionB.containsPoint(point)\n        )", "c16-rf-difference-demorgan")
M("C02", "C02.pred.algebra", _R, "        ) and not self.footprint.regionB.intersects(obj.occupiedSpace)", "        ) and not self.footprint.regionB.containsObject(obj)", "c02-difference-partial-overlap")
# --- agreement with the CPython grammar ---------------------------------------------------------------------------------
_G = "src/scenic/syntax/scenic.gram"
M("C09", "C09.reference", _G, "    | a=param_no_default+ b=param_with_default* c=[star_etc] {\n        self.make_arguments(None, [], a, b, c)\n", "    | a=param_no_default+ b=param_with_default* c=[star_etc] {\n        self.make_arguments(None, a, [], b, c)\n", "c09-params-posonly-slot")

M("C12", "C12.order", "src/scenic/core/simulators.py", "            if maxSteps and self.currentTime >= maxSteps:", "            if maxSteps and self.currentTime > maxSteps:", "c12-step-limit-off-by-one")

_CACHE_T = "            if (\n                prev_centerZ + prev_height / 2 > centerZ + height / 2\n                and prev_centerZ - prev_height / 2 < centerZ - height / 2\n            ):"
RF("C03", _R, _CACHE_T, "            if abs(centerZ - prev_centerZ) + height / 2 < prev_height / 2:", "c03-rf-cache-abs-form")
M("C03", "C03.cache", _R, _CACHE_T, "            if (\n                prev_centerZ + prev_height / 2 > centerZ + height / 2\n            ):", "c03-cache-upper-only")
M("C16", "C16.units", _R, "                if (\n                    self.dimensionality == reg.dimensionality\n                    and self.size * 1.01 < reg.size\n                ):", "                if self.size * 1.01 < reg.size:", "c16-size-across-dimensionalities")
M("C15", "C15.sinks", "src/scenic/core/specifiers.py", "        self.requiredProperties = tuple(sorted(deps))", "        self.requiredProperties = set(deps)", "c15-specifier-deps-set")
M("C14", "C14.runstate", "src/scenic/core/dynamics/scenarios.py", "        self._subScenarios = []\n\n        # Compute time limit", "        # Compute time limit", "c14-stale-subscenarios")
M("C12", "C12.kinds", "src/scenic/core/dynamics/scenarios.py", "        if ty is not RequirementType.require:\n", "        if False:\n", "c12-dynamic-kinds-undispatched")
M("C13", "C13.flags", "src/scenic/syntax/compiler.py", "        self.usedBreak, self.usedContinue = oldUsedBreak, oldUsedContinue\n", "", "c13-flags-not-restored")

M("C07", "C07.coerce", "src/scenic/syntax/veneer.py", "    # If the from point is oriented, use its orientation; else assume global coords.\n    # (This must be decided before the point is coerced to a plain vector.)\n    if isA(fromPt, OrientedPoint):\n        orientation = fromPt.orientation\n    else:\n        orientation = Orientation.fromEuler(0, 0, 0)\n\n    fromPt = toVector(fromPt, 'specifier \"beyond X by Y from Z\" with Z not a vector')\n", "    fromPt = toVector(fromPt, 'specifier \"beyond X by Y from Z\" with Z not a vector')\n    if isA(fromPt, OrientedPoint):\n        orientation = fromPt.orientation\n    else:\n        orientation = Orientation.fromEuler(0, 0, 0)\n", "c07-beyond-test-after-coercion")
M("C07", "C07.facing", "src/scenic/syntax/veneer.py", "                orientation = context.parentOrientation.inverse * headingAtPos", "                orientation = headingAtPos * context.parentOrientation.inverse", "c07-facing-composition-side")
M("C03", "C03.precision", "src/scenic/core/geometry.py", "    vertices = np.array(vertices, dtype=np.float64)[:, :2]", "    vertices = np.array(vertices, dtype=np.float32)[:, :2]", "c03-float32-triangulation")

M("C10", "C10.partial", _G, "                try:\n                    lines.extend(self._tokenizer.get_lines([lineno]))\n                except KeyError:\n                    lines.append(\"\")\n", "                lines.extend(self._tokenizer.get_lines([lineno]))\n", "c10-get-lines-unprotected")
M("C10", "C10.partial", _G, "&('until' | 'or' | 'and' | \"implies\" | ')' | ';' | NEWLINE)", "&('until' | 'or' | 'and' | ')' | ';' | NEWLINE)", "c10-temporal-group-lookahead")
M("C10", "C10.partial", "src/scenic/syntax/compiler.py", "                s.UntilOp: \"until\",\n", "", "c10-until-not-rejected")
M("C10", "C10.shadow", _G, "    | scenic_terminate_simulation_stmt\n    | scenic_terminate_stmt\n", "    | scenic_terminate_stmt\n    | scenic_terminate_simulation_stmt\n", "c10-terminate-shadows")
M("C09", "C09.arguments", _G, "            [d for _, d in pos_only_with_default if d is not None]\n            if pos_only_with_default else\n            []\n        )\n        defaults += (\n            [d for _, d in param_default if d is not None]\n            if param_default else\n            []\n        )", "            [d for _, d in param_default if d is not None]\n            if param_default else\n            []\n        )\n        defaults += (\n            [d for _, d in pos_only_with_default if d is not None]\n            if pos_only_with_default else\n            []\n        )", "c09-defaults-order")

M("C08", "C08.sources", "src/scenic/core/requirements.py", "            ty is RequirementType.require\n            and self.prob == 1\n            and condition.check_constrains_sampling()", "            ty is RequirementType.require\n            and condition.check_constrains_sampling()", "c08-soft-requirements-prune")
M("C08", "C08.cmpop", "src/scenic/syntax/relations.py", "        if len(node.keywords) != 0:\n            return None\n", "", "c08-unary-matcher-keywords")
M("C06", "C06.cycles", "src/scenic/core/object_types.py", "                specifying_spec = properties[modifying_inv[spec]]\n                dfs(specifying_spec)", "                specifying_spec = properties[modifying_inv[spec]]\n                if specifying_spec._dfs_state == 0:\n                    dfs(specifying_spec)", "c06-dfs-skips-in-progress")
M("C04", "C04.computed", _R, "                overlap = self._containsPointExact(\n                    other._interiorPoint\n                ) or other._containsPointExact(self._interiorPoint)\n                return overlap", "                return self._containsPointExact(other._interiorPoint)", "c04-one-sided-interior-test")
RF("C04", _R, "                overlap = self._containsPointExact(\n                    other._interiorPoint\n                ) or other._containsPointExact(self._interiorPoint)\n                return overlap", "                return other._containsPointExact(self._interiorPoint) or self._containsPointExact(\n                    other._interiorPoint\n                )", "c04-rf-interior-test-commuted")

M("C13", "C13.invariants", _IV, "            behavior.checkInvariants(agent, *behavior._args, **behavior._kwargs)", "            behavior.checkInvariants(None, *behavior._args, **behavior._kwargs)", "c13-tryinterrupt-invariants-none")
M("C13", "C13.flags", _CO, "        usedBreak, usedContinue = self.usedBreak, self.usedContinue\n        self.usedBreak, self.usedContinue = oldUsedBreak, oldUsedContinue\n", "        usedBreak, usedContinue = self.usedBreak, self.usedContinue\n", "c13-restore-dropped")
M("C13", "C13.invariants", _DS, "        if self._delayingPreconditionCheck:\n            try:\n                self._checkAllPreconditions()", "        if self._delayingPreconditionCheck:\n            self._delayingPreconditionCheck = False\n            try:\n                self._checkAllPreconditions()", "c13-delay-flag-cleared")
M("C13", "C13.invariants", _DS, "        if self._delayingPreconditionCheck:\n            try:", "        if self._delayingPreconditionCheck and self._compose is not None:\n            try:", "c13-delayed-check-narrowed")
RF("C13", _DS, "        if self._delayingPreconditionCheck:\n            try:\n                self._checkAllPreconditions()\n            except BaseException:\n                # We have not started anything yet, but must not stay marked as running:\n                # this object is started again by the next simulation.\n                super()._stop()\n                raise\n", "        if not self._delayingPreconditionCheck:\n            pass\n        else:\n            try:\n                self._checkAllPreconditions()\n            except BaseException:\n                super()._stop()\n                raise\n", "c13-rf-delayed-check-inverted")
M("C14", "C14.started", _DS, "            try:\n                self._checkAllPreconditions()\n            except BaseException:\n                # We have not started anything yet, but must not stay marked as running:\n                # this object is started again by the next simulation.\n                super()._stop()\n                raise\n", "            self._checkAllPreconditions()\n", "c14-start-unprotected-guard")
M("C14", "C14.started", _DS, "                super()._stop()\n                raise\n", "                raise\n", "c14-start-handler-keeps-mark")
M("C18", "C18.recorded", _IV, "                choice = Options(enabled)", "                import random as _r\n                choice = _r.choices(tuple(enabled), weights=tuple(enabled.values()))[0]", "c18-runtime-direct-draw")
M("C18", "C18.divergence", _SI, "            return diff > self.divergenceTolerance", "            return not math.isclose(diff, 0, abs_tol=self.divergenceTolerance)", "c18-divergence-isclose")
M("C18", "C18.divergence", _SI, "            diff = (actual - expected).norm()", "            diff = (actual - expected).x", "c18-divergence-one-component")
RF("C18", _SI, "        if diff:\n            return diff > self.divergenceTolerance\n        else:\n            return actual != expected", "        if not diff:\n            return actual != expected\n        return self.divergenceTolerance < diff", "c18-rf-divergence-restructured")
M("C19", "C19.rewind", _IV, "        self.checkPreconditions(self._agent, *self._args, **self._kwargs)\n        self.checkInvariants(self._agent, *self._args, **self._kwargs)\n\n    def _isEnabledForAgent", "        import random as _r\n        _st = _r.getstate()\n        self.checkPreconditions(self._agent, *self._args, **self._kwargs)\n        self.checkInvariants(self._agent, *self._args, **self._kwargs)\n        _r.setstate(_st)\n\n    def _isEnabledForAgent", "c19-guards-rewind-rng")
M("C19", "C19.enabled", _IV, "        try:\n            self._agent = agent  # in case `self` is used in a precondition\n            self._checkAllPreconditions()\n            return True", "        if getattr(self, '_wasEnabled', False):\n            return True\n        try:\n            self._agent = agent  # in case `self` is used in a precondition\n            self._checkAllPreconditions()\n            self._wasEnabled = True\n            return True", "c19-eligibility-cached")
RF("C19", _IV, "                choice = Options(enabled)\n            return choice", "                return Options(enabled)\n            return choice", "c19-rf-return-options-directly")
M("C20", "C20.adjacent", "src/scenic/formats/opendrive/xodr_parser.py", "            for section in lane.sections:\n                adj.extend(sec.lane for sec in section.adjacentLanes)", "            for section in lane.sections[:1]:\n                adj.extend(sec.lane for sec in section.adjacentLanes)", "c20-lane-adjacency-first-section")
M("C20", "C20.cover", "src/scenic/formats/opendrive/xodr_parser.py", "            laneRegion=combine(lanes),", "            laneRegion=combine(lanes),\n            drivableRegion=PolygonalRegion(polygon=self.drivable_region),", "c20-drivable-includes-gaps")
M("C15", "C15.sinks", _SI, "            self.agents += [\n                obj for obj in self.objects if obj.behavior and obj not in self.agents\n            ]", "            self.agents += list({obj for obj in self.objects if obj.behavior} - set(self.agents))", "c15-agents-from-set")
M("C12", "C12.logs", _SI, "            allActions = defaultdict(tuple)", "            allActions = defaultdict(tuple, {a: () for a in self.agents})", "c12-action-map-prefilled")
M("C14", "C14.cleanup", _SI, "                for obj in self.objects:\n                    disableDynamicProxyFor(obj)\n                for agent in self.agents:\n                    if agent.behavior and agent.behavior._isRunning:\n                        agent.behavior._stop()", "                for agent in self.agents:\n                    if agent.behavior and agent.behavior._isRunning:\n                        agent.behavior._stop()\n                for obj in self.objects:\n                    disableDynamicProxyFor(obj)", "c14-behaviours-stopped-through-proxies")
M("C04", "C04.distance", _R, "        if dist > 0 and not (self.isConvex and other.isConvex) and self.intersects(other):\n            return 0\n\n        return dist", "        return dist", "c04-distance-surface-gap")
M("C04", "C04.distance", _OT, "        if self._isPlanarBox and other._isPlanarBox and self.z == other.z:\n            return self._boundingPolygon.distance(other._boundingPolygon)", "        if self._isPlanarBox and other._isPlanarBox:\n            return self._boundingPolygon.distance(other._boundingPolygon)", "c04-distance-planar-any-height")
RF("C04", _R, "        if dist > 0 and not (self.isConvex and other.isConvex) and self.intersects(other):\n            return 0\n\n        return dist", "        if dist <= 0 or (self.isConvex and other.isConvex):\n            return dist\n        return 0 if self.intersects(other) else dist", "c04-rf-distance-restructured")
M("C10", "C10.partial", _G, "p=['[' a=NUMBER ']' { self.require_probability(a) }]", "p=['[' a=NUMBER ']' { float(a.string) }]", "c10-require-prob-float")
M("C10", "C10.groups", _G, "    | 'require' \"monitor\" e=expression n=['as' a=scenic_require_stmt_name { a }] {", "    | 'require' \"monitor\" e=expression n=['as' scenic_require_stmt_name] {", "c10-require-monitor-name-list")
M("C10", "C10.partial", _CO, "        if node.orelse and not node.except_handlers:\n", "        if False:\n", "c10-try-else-without-except")
M("C10", "C10.children", _CO, "            value = ast.Constant(None) if node.value is None else self.visit(node.value)", "            value = ast.Constant(None) if node.value is None else node.value", "c10-return-value-unvisited")
M("C04", "C04.polarity", _R, "                    obj.occupiedSpace.mesh.vertices - obj_candidate_point, axis=1\n                )\n            )\n\n            # Compute the minimum distance from the region to this point.", "                    obj.occupiedSpace.mesh.vertices - obj.position, axis=1\n                )\n            )\n\n            # Compute the minimum distance from the region to this point.", "c04-circumradius-other-anchor")
M("C18", "C18.options", _SE, "            hasher.update(str(value).encode())", "            hasher.update(struct.pack(\"<d\", float(value)) if not isinstance(value, str) else value.encode())", "c18-options-hash-lossy")
M("C04", "C04.computed", _R, "            if self.isConvex and other.isConvex:\n                # For convex shapes, FCL detects containment as well as", "            if self.isConvex or other.isConvex:\n                # For convex shapes, FCL detects containment as well as", "c04-collision-final-one-convex")
M("C14", "C14.recorders", "src/scenic/core/sensors.py", "        if not canceled:\n            self.recordTimeSeries(self._series)\n        self._series.clear()\n        super().endRecording(canceled)", "        super().endRecording(canceled)\n        if canceled:\n            return\n        self.recordTimeSeries(self._series)\n        self._series.clear()", "c14-recorder-keeps-series")
M("C14", "C14.globals", _TR, "    finally:\n        veneer.deactivate()\n        if not _cacheImports:\n            purgeModulesUnsafeToCache(oldModules)", "    finally:\n        veneer.deactivate()\n    if not _cacheImports:\n        purgeModulesUnsafeToCache(oldModules)", "c14-purge-outside-finally")
M("C20", "C20.reconnect", "src/scenic/formats/opendrive/xodr_parser.py", "                newRoad.sections[-1]._successor = intersection", "                newRoad.sections[0]._successor = intersection", "c20-successor-on-first-section")
M("C20", "C20.options", _SE, "        value = mapping[key]\n        if isinstance(value, (int, float, str)):", "        value = mapping[key]\n        if value is None:\n            continue\n        if isinstance(value, (int, float, str)):", "c20-options-hash-skips-none")
M("C19", "C19.enabled", _IV, "            if len(enabled) == 1:\n                choice = list(enabled)[0]\n            else:\n                choice = Options(enabled)\n            return choice", "            return Options(enabled)", "c19-single-item-through-options")
M("C13", "C13.priority", _IV, "        block = body\n        for interrupt in interrupts:\n            if interrupt.isEnabled or interrupt.isRunning:\n                block = interrupt\n                break", "        enabled = [i for i in interrupts if i.isEnabled]\n        running = [i for i in interrupts if i.isRunning]\n        block = (enabled or running or [body])[0]", "c13-enabled-before-running")
RF("C13", _IV, "        block = body\n        for interrupt in interrupts:\n            if interrupt.isEnabled or interrupt.isRunning:\n                block = interrupt\n                break", "        live = [i for i in interrupts if i.isRunning or i.isEnabled]\n        block = live[0] if live else body", "c13-rf-selection-as-comprehension")
M("C13", "C13.invariants", _IV, "            yield result\n            behavior.checkInvariants(agent, *behavior._args, **behavior._kwargs)", "            yield result\n            if conditions:\n                behavior.checkInvariants(agent, *behavior._args, **behavior._kwargs)", "c13-invariant-recheck-conditional")
