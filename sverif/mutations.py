"""Mutation corpus (in-memory overlays).  Populated per property."""


def run(prop=None, jobs=16, verbose=False):
    return 0
