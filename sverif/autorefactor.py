"""Generic behaviour-preserving rewrites of the analysed sources, used by the self-test to look for false alarms.

Each transformation maps a module's source to an equivalent source (same behaviour for every input) and is applied to
*every* Python file under src/scenic at once (one overlay).  The checkers must stay silent on the result: a rule that
reports a new finding here depends on something a maintainer may change without changing behaviour (a local variable's
name, the direction a comparison is written in, which branch of an ``if`` comes first, formatting, comments).

Transformations
  unparse        re-print every module from its AST (drops comments, normalises quotes, parentheses, line breaks)
  rename-locals  alpha-rename function-local variables (not parameters, not globals/nonlocals of other scopes,
                 not import-bound names), consistently inside the function and its nested scopes
  swap-compare   ``a < b`` -> ``b > a`` (and <=, >, >=) when both operands are free of calls (evaluation order is then
                 irrelevant)
  flip-if        ``if not c: A else: B`` -> ``if c: B else: A`` and ``if a != b`` / ``is not`` likewise (non-elif only)
  return-temp    ``return E`` -> ``_ret = E; return _ret``
  else-after-exit  ``if c: ...; return X`` + rest -> the same ``if`` with the rest as its ``else`` branch
  keyword-last   ``f(a, b)`` -> ``f(a, y=b)`` when every definition named ``f`` in the repository calls its parameter at that
                 position ``y`` (undecorated, no ``*args``)
  split-and      ``if a and b: X`` (no else) -> nested ifs; ``not (a and b)`` -> ``not a or not b`` (De Morgan)
  chain-split    ``a <= x <= b`` -> ``a <= x and x <= b`` (call-free middle operand)
  ifexp-to-if    ``v = A if c else B`` / ``return A if c else B`` -> the if-statement form
  extract-arg    ``v = f(g(x), ...)`` -> ``_arg = g(x); v = f(_arg, ...)`` (statement-level call, first argument a call)
  extract-arg-apart  the same with a statement without effect between the temporary and its use (so that the rules cannot
                 rely on normalisation N5 putting the expression back)
  else-then-flip else-after-exit followed by flip-if (``if not c: return X`` + rest -> ``if c: rest`` / ``else: return X``)
  all-composed   eleven of the above applied one after the other to the same tree
  insert-noop    a call without effect (``(lambda: None)()``, standing for a log line) at the start of every function
                 body and loop body
"""

import ast
import builtins
import os

from . import REPO

_SWAP = {ast.Lt: ast.Gt, ast.Gt: ast.Lt, ast.LtE: ast.GtE, ast.GtE: ast.LtE}
_BUILTINS = set(dir(builtins))


_PURE_CALLS = {"len", "abs", "min", "max", "float", "int", "isinstance", "math.hypot", "math.sqrt", "math.floor", "math.ceil", "numpy.linalg.norm", "np.linalg.norm", "numpy.max", "numpy.min", "np.max", "np.min"}


def _pure(e):
    """Evaluating e has no effect and cannot be affected by evaluating the other operand first."""
    for n in ast.walk(e):
        if isinstance(n, (ast.Await, ast.Yield, ast.YieldFrom, ast.NamedExpr)):
            return False
        if isinstance(n, ast.Call):
            try:
                name = ast.unparse(n.func)
            except Exception:
                return False
            if name not in _PURE_CALLS:
                return False
    return True


class _SwapCompare(ast.NodeTransformer):
    def visit_Compare(self, node):
        self.generic_visit(node)
        if len(node.ops) == 1 and type(node.ops[0]) in _SWAP and _pure(node.left) and _pure(node.comparators[0]):
            return ast.copy_location(
                ast.Compare(left=node.comparators[0], ops=[_SWAP[type(node.ops[0])]()], comparators=[node.left]), node
            )
        return node


class _FlipIf(ast.NodeTransformer):
    def visit_If(self, node):
        self.generic_visit(node)
        if not node.orelse:
            return node
        if len(node.orelse) == 1 and isinstance(node.orelse[0], ast.If):
            return node  # elif chain: leave
        t = node.test
        if isinstance(t, ast.UnaryOp) and isinstance(t.op, ast.Not):
            new = t.operand
        elif isinstance(t, ast.Compare) and len(t.ops) == 1 and isinstance(t.ops[0], (ast.NotEq, ast.IsNot)):
            op = ast.Eq() if isinstance(t.ops[0], ast.NotEq) else ast.Is()
            new = ast.copy_location(ast.Compare(left=t.left, ops=[op], comparators=t.comparators), t)
        else:
            return node
        return ast.copy_location(ast.If(test=new, body=node.orelse, orelse=node.body), node)


def _scope_nodes(fn):
    """Nodes of fn's subtree (including nested scopes)."""
    for n in ast.walk(fn):
        yield n


def _renamable(fn, module_names):
    """Names assigned in fn's own scope that may be alpha-renamed safely."""
    args = fn.args
    params = {a.arg for a in args.posonlyargs + args.args + args.kwonlyargs}
    if args.vararg:
        params.add(args.vararg.arg)
    if args.kwarg:
        params.add(args.kwarg.arg)
    banned = set(params)
    own_stores = set()
    # walk own scope only for stores; whole subtree for hazards
    stack = list(fn.body)
    while stack:
        n = stack.pop()
        if isinstance(n, (ast.FunctionDef, ast.AsyncFunctionDef, ast.ClassDef)):
            banned.add(n.name)
            continue
        if isinstance(n, ast.Lambda):
            continue
        if isinstance(n, ast.Name) and isinstance(n.ctx, (ast.Store, ast.Del)):
            own_stores.add(n.id)
        if isinstance(n, (ast.ListComp, ast.SetComp, ast.DictComp, ast.GeneratorExp)):
            # comprehension targets are their own scope: never rename them on their own; but a walrus inside leaks
            for g in n.generators:
                for t in ast.walk(g.target):
                    if isinstance(t, ast.Name):
                        banned.add(t.id)
        stack.extend(ast.iter_child_nodes(n))
    for n in ast.walk(fn):
        if isinstance(n, (ast.Global, ast.Nonlocal)):
            banned.update(n.names)
        elif isinstance(n, ast.alias):
            banned.add((n.asname or n.name).split(".")[0])
        elif isinstance(n, ast.ExceptHandler) and n.name:
            banned.add(n.name)
        elif isinstance(n, (ast.FunctionDef, ast.AsyncFunctionDef, ast.Lambda)) and n is not fn:
            a = n.args
            for x in a.posonlyargs + a.args + a.kwonlyargs:
                banned.add(x.arg)
            if a.vararg:
                banned.add(a.vararg.arg)
            if a.kwarg:
                banned.add(a.kwarg.arg)
            if not isinstance(n, ast.Lambda):
                # locals of nested functions with the same name would be merged by a consistent rename: harmless, but
                # keep it simple and skip such names
                for m in ast.walk(n):
                    if isinstance(m, ast.Name) and isinstance(m.ctx, ast.Store):
                        banned.add(m.id)
        elif isinstance(n, ast.ClassDef):
            for m in ast.walk(n):
                if isinstance(m, ast.Name):
                    banned.add(m.id)
        elif isinstance(n, ast.Call) and isinstance(n.func, ast.Name) and n.func.id in ("locals", "vars", "eval", "exec", "dir"):
            return set()
        elif isinstance(n, (ast.Match,)):
            return set()
    out = set()
    for name in own_stores - banned:
        if name.startswith("__") or name in _BUILTINS:
            continue
        if name == "_":
            continue
        out.add(name)
    return out


class _Renamer(ast.NodeTransformer):
    def __init__(self, names, suffix):
        self.names = names
        self.suffix = suffix

    def visit_Name(self, node):
        if node.id in self.names:
            return ast.copy_location(ast.Name(id=node.id + self.suffix, ctx=node.ctx), node)
        return node


def _rename_locals(tree, suffix="_rn"):
    module_names = {n.id for n in ast.walk(tree) if isinstance(n, ast.Name)}
    attr_names = {n.attr for n in ast.walk(tree) if isinstance(n, ast.Attribute)}

    def do(fn):
        names = _renamable(fn, module_names)
        names = {n for n in names if (n + suffix) not in module_names}
        if names:
            r = _Renamer(names, suffix)
            fn.body = [r.visit(s) for s in fn.body]

    # only outermost functions of each nesting chain are handled (nested ones are covered by the consistent rename)
    def walk(node, inside_fn):
        for ch in ast.iter_child_nodes(node):
            if isinstance(ch, (ast.FunctionDef, ast.AsyncFunctionDef)):
                # outer functions first; a nested function's own locals were excluded from the outer pass (they are
                # banned there), so they are renamed here, inside the nested function only
                do(ch)
                walk(ch, True)
            else:
                walk(ch, inside_fn)

    walk(tree, False)
    return tree


class _ReturnTemp(ast.NodeTransformer):
    """`return E` -> `_ret = E; return _ret` (E not a bare name / constant).  Lambdas and generators are unaffected
    (a generator's `return E` is rewritten the same way, which preserves the StopIteration value)."""

    def _rewrite(self, body):
        out = []
        for st in body:
            if isinstance(st, ast.Return) and st.value is not None and not isinstance(st.value, (ast.Name, ast.Constant)):
                tmp = ast.Name(id="_ret", ctx=ast.Store())
                out.append(ast.copy_location(ast.Assign(targets=[tmp], value=st.value), st))
                out.append(ast.copy_location(ast.Return(value=ast.Name(id="_ret", ctx=ast.Load())), st))
            else:
                out.append(st)
        return out

    def generic_visit(self, node):
        super().generic_visit(node)
        for f in ("body", "orelse", "finalbody"):
            seq = getattr(node, f, None)
            if isinstance(seq, list) and seq and isinstance(seq[0], ast.stmt):
                setattr(node, f, self._rewrite(seq))
        if isinstance(node, ast.Try):
            for h in node.handlers:
                h.body = self._rewrite(h.body)
        return node


def _return_temp(tree):
    # skip functions that already use the name
    used = {n.id for n in ast.walk(tree) if isinstance(n, ast.Name)}
    if "_ret" in used:
        return tree
    return _ReturnTemp().visit(tree)


class _InsertNoop(ast.NodeTransformer):
    """Insert a statement without effect (a call of `lambda: None`, standing for a log line) at the start of every function body (after the docstring) and of every
    loop body: what a maintainer does when adding a log line or a comment-like marker."""

    def _pad(self, body, keep_doc):
        i = 1 if keep_doc and body and isinstance(body[0], ast.Expr) and isinstance(getattr(body[0], "value", None), ast.Constant) and isinstance(body[0].value.value, str) else 0
        noop = ast.Expr(value=ast.Call(func=ast.Lambda(args=ast.arguments(posonlyargs=[], args=[], kwonlyargs=[], kw_defaults=[], defaults=[]), body=ast.Constant(value=None)), args=[], keywords=[]))
        return body[:i] + [noop] + body[i:]

    def visit_FunctionDef(self, node):
        self.generic_visit(node)
        node.body = self._pad(node.body, True)
        return node

    visit_AsyncFunctionDef = visit_FunctionDef

    def visit_For(self, node):
        self.generic_visit(node)
        node.body = self._pad(node.body, False)
        return node

    visit_While = visit_For


# ---- keyword-last: f(a, b) -> f(a, y=b) where every definition `f` may refer to names its 2nd parameter `y` ---------------

_SAFE_DECOS = {"staticmethod", "classmethod"}


def _signature_index(repo=None):
    """{callable simple name: set of parameter-name tuples (without self/cls)} over src/scenic; a name maps to None when
    some definition of it cannot be called with keywords safely (decorated, *args, positional-only)."""
    repo = repo or REPO
    idx = {}

    def add(name, params):
        if name in idx and idx[name] is None:
            return
        if params is None:
            idx[name] = None
        else:
            idx.setdefault(name, set()).add(params)

    for rel in python_files(repo):
        try:
            tree = ast.parse(open(os.path.join(repo, rel), encoding="utf-8").read())
        except SyntaxError:
            continue
        # a name that is also assigned as an attribute somewhere (self.body = f) may denote a stored callable, not the method
        for n in ast.walk(tree):
            if isinstance(n, ast.Attribute) and isinstance(n.ctx, ast.Store):
                add(n.attr, None)
        for cls in [n for n in ast.walk(tree) if isinstance(n, ast.ClassDef)]:
            init = [f for f in cls.body if isinstance(f, ast.FunctionDef) and f.name == "__init__"]
            # a class without its own __init__ inherits one we do not resolve here: unsafe
            add(cls.name, _params(init[0], drop_first=True) if init and not cls.decorator_list else None)
        for fn in [n for n in ast.walk(tree) if isinstance(n, (ast.FunctionDef, ast.AsyncFunctionDef))]:
            if fn.name.startswith("__"):
                continue
            is_method = any(isinstance(p, ast.ClassDef) and fn in p.body for p in ast.walk(tree))
            decos = {ast.unparse(d) for d in fn.decorator_list}
            if decos - _SAFE_DECOS:
                add(fn.name, None)
                continue
            # a function defined in a class body may also be called by its bare name inside that body (e.g. as a
            # decorator), where no self is bound: such names are never rewritten
            if is_method and any(isinstance(c, ast.Name) and c.id == fn.name for c in ast.walk(tree)):
                add(fn.name, None)
                continue
            add(fn.name, _params(fn, drop_first=is_method and "staticmethod" not in decos))
    return idx


def _params(fn, drop_first):
    a = fn.args
    if a.vararg or a.posonlyargs:
        return None
    names = [x.arg for x in a.args]
    if drop_first:
        names = names[1:]
    return tuple(names)


_SIG_CACHE = {}


def _keyword_last(tree, repo=None):
    key = repo or REPO
    if key not in _SIG_CACHE:
        _SIG_CACHE[key] = _signature_index(key)
    idx = _SIG_CACHE[key]

    # names that certainly denote a definition of this repository when used as a plain call: defined or imported at
    # the top level of this module, and nowhere rebound as a local / parameter
    top = set()
    for st in tree.body:
        if isinstance(st, (ast.FunctionDef, ast.AsyncFunctionDef, ast.ClassDef)):
            top.add(st.name)
        elif isinstance(st, ast.ImportFrom) and (st.module or "").startswith("scenic"):
            top.update(a.asname or a.name for a in st.names)
    rebound = set()
    for fn in [n for n in ast.walk(tree) if isinstance(n, (ast.FunctionDef, ast.AsyncFunctionDef, ast.Lambda))]:
        a_ = fn.args
        rebound.update(x.arg for x in a_.posonlyargs + a_.args + a_.kwonlyargs)
        if a_.vararg:
            rebound.add(a_.vararg.arg)
        if a_.kwarg:
            rebound.add(a_.kwarg.arg)
        if not isinstance(fn, ast.Lambda):
            for n in ast.walk(fn):
                if isinstance(n, ast.Name) and isinstance(n.ctx, ast.Store):
                    rebound.add(n.id)
                elif isinstance(n, (ast.FunctionDef, ast.AsyncFunctionDef, ast.ClassDef)) and n is not fn:
                    rebound.add(n.name)
    safe_names = top - rebound

    class T(ast.NodeTransformer):
        def __init__(self):
            self.classes = []

        def visit_ClassDef(self, node):
            self.classes.append({m.name for m in node.body if isinstance(m, (ast.FunctionDef, ast.AsyncFunctionDef))})
            self.generic_visit(node)
            self.classes.pop()
            return node

        def visit_Call(self, node):
            self.generic_visit(node)
            f = node.func
            if isinstance(f, ast.Name) and f.id not in safe_names:
                return node
            # a method called on self / cls must be defined by the enclosing class itself (an inherited method of a
            # third-party base class may name its parameters differently)
            if isinstance(f, ast.Attribute) and not (self.classes and f.attr in self.classes[-1]):
                return node
            # only callees that certainly are repository definitions: plain names that are not builtins, and methods
            # called on self / cls
            if isinstance(f, ast.Name) and f.id not in _BUILTINS:
                name = f.id
            elif isinstance(f, ast.Attribute) and isinstance(f.value, ast.Name) and f.value.id in ("self", "cls"):
                name = f.attr
            else:
                return node
            if idx.get(name) is None or name not in idx:
                return node
            if isinstance(f, ast.Attribute) and isinstance(f.value, ast.Call) and ast.unparse(f.value.func) == "super":
                return node
            if not node.args or any(isinstance(a, ast.Starred) for a in node.args) or any(k.arg is None for k in node.keywords):
                return node
            i = len(node.args) - 1
            cands = idx[name]
            pn = {c[i] if len(c) > i else None for c in cands}
            if len(pn) != 1 or None in pn:
                return node
            p_ = pn.pop()
            if any(k.arg == p_ for k in node.keywords):
                return node
            node.keywords = [ast.keyword(arg=p_, value=node.args[-1])] + node.keywords
            node.args = node.args[:-1]
            return node

    return T().visit(tree)


class _ElseAfterExit(ast.NodeTransformer):
    """`if c: ...; return X` followed by REST  ->  `if c: ...; return X` `else: REST` (the early-exit style rewritten as
    an if/else)."""

    @staticmethod
    def _exits(body):
        return bool(body) and isinstance(body[-1], (ast.Return, ast.Raise, ast.Continue, ast.Break))

    def _rewrite(self, body):
        for i, st in enumerate(body):
            if isinstance(st, ast.If) and not st.orelse and self._exits(st.body) and i + 1 < len(body):
                rest = self._rewrite(body[i + 1 :])
                st.orelse = rest
                return body[: i + 1]
        return body

    def generic_visit(self, node):
        super().generic_visit(node)
        for f in ("body", "orelse", "finalbody"):
            seq = getattr(node, f, None)
            if isinstance(seq, list) and seq and isinstance(seq[0], ast.stmt):
                setattr(node, f, self._rewrite(seq))
        return node


class _SplitAnd(ast.NodeTransformer):
    """`if a and b: X` (no else) -> `if a: if b: X`; `not (a and b)` / `not (a or b)` -> De Morgan."""

    def visit_If(self, node):
        self.generic_visit(node)
        if not node.orelse and isinstance(node.test, ast.BoolOp) and isinstance(node.test.op, ast.And):
            vals = node.test.values
            inner = node.body
            for v in reversed(vals):
                inner = [ast.copy_location(ast.If(test=v, body=inner, orelse=[]), node)]
            return inner[0]
        return node

    def visit_UnaryOp(self, node):
        self.generic_visit(node)
        if isinstance(node.op, ast.Not) and isinstance(node.operand, ast.BoolOp):
            b = node.operand
            op = ast.Or() if isinstance(b.op, ast.And) else ast.And()
            return ast.copy_location(
                ast.BoolOp(op=op, values=[ast.UnaryOp(op=ast.Not(), operand=v) for v in b.values]), node
            )
        return node


class _ChainSplit(ast.NodeTransformer):
    """`a <= x <= b` -> `a <= x and x <= b` when the middle operands are free of calls."""

    def visit_Compare(self, node):
        self.generic_visit(node)
        if len(node.ops) < 2 or not all(_pure(c) for c in node.comparators[:-1]):
            return node
        parts, left = [], node.left
        for op, right in zip(node.ops, node.comparators):
            parts.append(ast.Compare(left=left, ops=[op], comparators=[right]))
            left = right
        return ast.copy_location(ast.BoolOp(op=ast.And(), values=parts), node)


class _IfExpToIf(ast.NodeTransformer):
    """`v = A if c else B` -> `if c: v = A` / `else: v = B`; `return A if c else B` -> `if c: return A` / `return B`."""

    def _stmts(self, body):
        out = []
        for st in body:
            if isinstance(st, ast.Return) and isinstance(st.value, ast.IfExp):
                e = st.value
                out.append(ast.copy_location(ast.If(test=e.test, body=[ast.Return(value=e.body)], orelse=[]), st))
                out.append(ast.copy_location(ast.Return(value=e.orelse), st))
            elif (
                isinstance(st, ast.Assign)
                and isinstance(st.value, ast.IfExp)
                and len(st.targets) == 1
                and isinstance(st.targets[0], ast.Name)
            ):
                e = st.value
                out.append(
                    ast.copy_location(
                        ast.If(
                            test=e.test,
                            body=[ast.Assign(targets=st.targets, value=e.body)],
                            orelse=[ast.Assign(targets=st.targets, value=e.orelse)],
                        ),
                        st,
                    )
                )
            else:
                out.append(st)
        return out

    def generic_visit(self, node):
        super().generic_visit(node)
        if isinstance(node, ast.ClassDef):
            return node  # class bodies: leave
        for f in ("body", "orelse", "finalbody"):
            seq = getattr(node, f, None)
            if isinstance(seq, list) and seq and isinstance(seq[0], ast.stmt):
                setattr(node, f, self._stmts(seq))
        return node


class _ExtractArg(ast.NodeTransformer):
    """`v = f(g(x), ...)` -> `_arg = g(x); v = f(_arg, ...)` for statement-level calls whose callee is a plain name or
    dotted name and whose first positional argument is itself a call (an "extract variable" refactoring)."""

    def __init__(self, apart=False):
        self.n = 0
        self.apart = apart  # put a statement without effect between the temporary and its use

    @staticmethod
    def _dotted(e):
        while isinstance(e, ast.Attribute):
            e = e.value
        return isinstance(e, ast.Name)

    def _stmts(self, body, in_func):
        out = []
        for st in body:
            v = getattr(st, "value", None) if isinstance(st, (ast.Assign, ast.Return, ast.Expr)) else None
            if (
                in_func
                and isinstance(v, ast.Call)
                and self._dotted(v.func)
                and v.args
                and isinstance(v.args[0], ast.Call)
                and not any(isinstance(n, (ast.Yield, ast.YieldFrom, ast.Await, ast.NamedExpr)) for n in ast.walk(v))
            ):
                self.n += 1
                name = f"_arg{self.n}"
                out.append(ast.copy_location(ast.Assign(targets=[ast.Name(id=name, ctx=ast.Store())], value=v.args[0]), st))
                if self.apart:
                    noop = ast.Expr(ast.Call(func=ast.Lambda(args=ast.arguments(posonlyargs=[], args=[], kwonlyargs=[], kw_defaults=[], defaults=[]), body=ast.Constant(None)), args=[], keywords=[]))
                    out.append(ast.copy_location(noop, st))
                v.args[0] = ast.Name(id=name, ctx=ast.Load())
            out.append(st)
        return out

    def _visit_body(self, node, in_func):
        for f in ("body", "orelse", "finalbody"):
            seq = getattr(node, f, None)
            if isinstance(seq, list) and seq and isinstance(seq[0], ast.stmt):
                for st in seq:
                    if isinstance(st, (ast.FunctionDef, ast.AsyncFunctionDef)):
                        self._visit_body(st, True)
                    elif isinstance(st, ast.ClassDef):
                        self._visit_body(st, False)
                    else:
                        self._visit_body(st, in_func)
                setattr(node, f, self._stmts(seq, in_func))
        for h in getattr(node, "handlers", []) or []:
            self._visit_body(h, in_func)
        for c in getattr(node, "cases", []) or []:
            self._visit_body(c, in_func)

    def visit_Module(self, node):
        self._visit_body(node, False)
        return node


def _compose(*names):
    def run(tree, _names=names):
        for n in _names:
            tree = TRANSFORMS[n](tree)
            ast.fix_missing_locations(tree)
            tree = ast.parse(ast.unparse(tree))
        return tree

    return run


TRANSFORMS = {
    "else-after-exit": lambda tree: _ElseAfterExit().visit(tree),
    "keyword-last": _keyword_last,
    "insert-noop": lambda tree: _InsertNoop().visit(tree),
    "return-temp": _return_temp,
    "unparse": lambda tree: tree,
    "rename-locals": _rename_locals,
    "swap-compare": lambda tree: _SwapCompare().visit(tree),
    "flip-if": lambda tree: _FlipIf().visit(tree),
    "split-and": lambda tree: _SplitAnd().visit(tree),
    "chain-split": lambda tree: _ChainSplit().visit(tree),
    "ifexp-to-if": lambda tree: _IfExpToIf().visit(tree),
    "extract-arg": lambda tree: _ExtractArg().visit(tree),
    "extract-arg-apart": lambda tree: _ExtractArg(apart=True).visit(tree),
}
TRANSFORMS["else-then-flip"] = _compose("else-after-exit", "flip-if")
# everything at once: the rewrites must also commute with each other as far as the rules are concerned
TRANSFORMS["all-composed"] = _compose("rename-locals", "swap-compare", "split-and", "chain-split", "ifexp-to-if", "else-after-exit", "flip-if", "extract-arg-apart", "return-temp", "keyword-last", "insert-noop")


def python_files(repo=None):
    repo = repo or REPO
    base = os.path.join(repo, "src", "scenic")
    out = []
    for d, dirs, files in os.walk(base):
        dirs[:] = sorted(x for x in dirs if x != "__pycache__")
        for f in sorted(files):
            if f.endswith(".py"):
                rel = os.path.relpath(os.path.join(d, f), repo)
                if rel.endswith("syntax/parser.py"):
                    continue  # generated, git-ignored, never analysed
                out.append(rel)
    return out


def overlay_for(name, repo=None, only=None):
    """Overlay {rel: transformed source} for every python file (or only the listed ones)."""
    repo = repo or REPO
    fn = TRANSFORMS[name]
    ov = {}
    for rel in python_files(repo):
        if only is not None and rel not in only:
            continue
        src = open(os.path.join(repo, rel), encoding="utf-8").read()
        try:
            tree = ast.parse(src)
        except SyntaxError:
            continue
        tree = fn(tree)
        ast.fix_missing_locations(tree)
        new = ast.unparse(tree) + "\n"
        # must still compile
        compile(new, rel, "exec")
        ov[rel] = new
    return ov
