import json, sys, os
props = {json.loads(l)['id']: json.loads(l) for l in open('/verif/properties.jsonl')}
TEMPLATE = """# Task: seed a realistic regression that breaks one property of Scenic

You work ONLY inside this directory: `{wt}` — a scratch git worktree of the Scenic repository
(BerkeleyLearnVerify/Scenic, the probabilistic scenario description language: PEG parser, Scenic-to-Python
compiler, rejection sampler, region geometry, dynamic simulation runtime). Do not read, write or run anything in
`/repo` or `/verif`; do not commit anything; there is no network.

## The property

```json
{prop}
```

## What is wanted

Produce up to THREE different, independent source changes (to files under `src/scenic/` of this worktree), each of
which

1. breaks the property above (for at least one input / program / history the property quantifies over),
2. still imports/compiles, and leaves the existing test suite passing (the same tests pass as before the change),
3. looks like something a maintainer could plausibly commit by mistake — an optimisation, a refactoring, a
   "simplification", a changed default, a dropped guard, a reordered statement, a swapped operand, an off-by-one,
   a missing case, a cached value — not a deliberately planted `if x == 42` backdoor, and
4. preferably needs something *specific* to manifest: a particular kind of region / specifier combination /
   operator / nesting / mode / argument, an unusual ordering, a second call, a particular error path … — so that
   an ordinary test that exercises the feature once on a typical input does not notice it.

Make the three changes as different from each other as you can (different functions, different clauses of the
property, different mechanisms). Look beyond the first functions that come to mind: also consider helper modules,
error paths, rarely used options and the less central files named in the property's anchors. At least one of your changes should be
of the kind where TWO cooperating sites each look fine alone (a caller and a callee changed consistently with each other but
inconsistently with a third user; a producer and a consumer of a table, cache, flag or tuple layout), or that needs a
MULTI-STEP history (a second call, a re-used object, a particular failure at a particular point followed by another operation)
to manifest. Subtle is better than large: 1–10 changed lines each is ideal.

For each change k = 1, 2, 3 deliver, in the directory `{wt}/_seed/` (create it; it is untracked):

* `change<k>.diff` — `git diff` of the change against the worktree's HEAD (only files under `src/`), applying
  cleanly with `git apply` on a clean checkout;
* `demo<k>.py` — a self-contained demonstration script, run as
  `cd {wt} && PYTHONPATH={wt}/src /venv/bin/python _seed/demo<k>.py`, that exits 0 and prints `PASS` on the
  unmodified code and exits 1 and prints `FAIL: <what went wrong>` with the change applied. It must be
  deterministic (fix seeds; prefer exact or exhaustive arguments over statistical ones; if statistics are
  unavoidable use margins that make a wrong verdict practically impossible);
* `notes<k>.md` — 5–15 lines: what the change is, which clause of the property it breaks, what specifically is
  needed for it to manifest, which tests you ran and their result.

Leave the worktree CLEAN at the end (`git checkout -- .`): only `_seed/` and this task file may remain as
untracked files. Verify each diff yourself: clean tree -> demo prints PASS; `git apply _seed/change<k>.diff` ->
demo prints FAIL; tests below still pass; `git checkout -- .`.

## Practicalities

* Interpreter: `/venv/bin/python` (3.12) has every dependency. Scenic is installed there in editable mode pointing
  at another checkout, so ALWAYS set `PYTHONPATH={wt}/src` so that *this* worktree's code is the one imported
  (check with `PYTHONPATH={wt}/src /venv/bin/python -c "import scenic; print(scenic.__file__)"`).
* `src/scenic/syntax/parser.py` is generated from `src/scenic/syntax/scenic.gram` by pegen and is git-ignored. It is
  created automatically on first import if missing. If you change the grammar you must regenerate it:
  `cd {wt} && /venv/bin/python -m pegen src/scenic/syntax/scenic.gram -o src/scenic/syntax/parser.py`
  (and regenerate again after reverting the grammar).
* Tests: `cd {wt} && PYTHONPATH={wt}/src /venv/bin/python -m pytest -q -p no:cacheprovider --timeout=900 <paths>`.
  Run them serially (pytest-xdist `-n` does not work here) and NEVER run more than one pytest process at a time:
  the machine is shared with other jobs, and parallel suites make everything (including your own runs) many times
  slower. Do not copy the tree to run several suites side by side. First run only the test files that exercise the
  code you touched (seconds to a minute); once a change looks final, run `tests/core tests/syntax` once for it
  (about 5 minutes when the machine is quiet; `tests/syntax/test_errors.py` is the slowest file and may be run last).
  These 15 tests fail on the unmodified code in this sandbox and may be ignored:
  `tests/domains/driving/test_driving.py::test_opendrive[...Town03.xodr]`, `...[...Town05.xodr]`,
  `tests/domains/driving/test_network.py::{{test_dump_pickle_from_pickle,test_from_pickle_digest_mismatch,test_linkage,test_orientation_consistency,test_shoulder,test_show2D,test_sidewalk}}`,
  `tests/syntax/test_distributions.py::test_specifier_order`, `tests/test_main.py::{{test_param,test_param_float,test_param_int,test_seed,test_time}}`.
* A change that makes some existing test fail is not acceptable — pick another one.
* Do NOT use `git stash` (the stash is shared by all worktrees of the repository and other people work in sibling
  worktrees): keep each change as a diff file under `_seed/` and switch with `git apply`, `git apply -R`, `git checkout -- .`.
* Scenic programs can be compiled from a string with
  `scenic.scenarioFromString(code, mode2D=...)` and sampled with `scenario.generate(maxIterations=...)`;
  look at `tests/utils.py` for helpers (`compileScenic`, `sampleEgoFrom`, `sampleSceneFrom`, …).

## Final answer

Reply with a short list: for each change, the file/function touched, one sentence on what breaks, and the test
files you ran with the result. If you could only produce one or two acceptable changes, say so.
"""
for pid in sys.argv[1:]:
    wt = f"/tmp/wt/{pid}"
    pid = pid.split("-")[-1]
    open(os.path.join(wt, "_TASK.md"), "w").write(TEMPLATE.format(wt=wt, prop=json.dumps(props[pid], indent=1)))
    print(pid, "ok")
