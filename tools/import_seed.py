#!/venv/bin/python
"""Import a seeded change produced by a sub-agent from its scratch worktree into /verif/seeded/<id>/ after confirming
it: the demonstration must print PASS on the clean worktree and FAIL with the patch applied.
usage: import_seed.py C08 1 [--needs "..."]"""
import json, os, shutil, subprocess, sys, time

prop, k = sys.argv[1], sys.argv[2]
# optional: worktree directory and the number to store the change under (second round: R2-<prop>, numbers 4..6)
wt = sys.argv[3] if len(sys.argv) > 3 else f"/tmp/wt/{prop}"
seed = f"{wt}/_seed"
sid = f"{prop}-{sys.argv[4] if len(sys.argv) > 4 else k}"
dst = f"/verif/seeded/{sid}"
env = {**os.environ, "PYTHONPATH": f"{wt}/src"}


def sh(cmd, **kw):
    return subprocess.run(cmd, shell=True, cwd=wt, capture_output=True, text=True, env=env, **kw)


def regen_parser():
    sh("/venv/bin/python -m pegen src/scenic/syntax/scenic.gram -o src/scenic/syntax/parser.py")


def demo():
    t0 = time.time()
    r = sh(f"/venv/bin/python _seed/demo{k}.py", timeout=3000)
    out = (r.stdout + r.stderr).strip().splitlines()
    last = [l for l in out if l.startswith(("PASS", "FAIL"))]
    return r.returncode, (last[-1] if last else (out[-1] if out else ""))[:300], round(time.time() - t0, 1)


patch = open(f"{seed}/change{k}.diff").read()
gram = "scenic.gram" in patch
st = sh("git status --porcelain --untracked-files=no").stdout.strip()
if st:
    print("worktree not clean:", st); sys.exit(2)
if gram:
    regen_parser()
c_rc, c_out, c_t = demo()
r = sh(f"git apply _seed/change{k}.diff")
if r.returncode != 0:
    print("patch does not apply:", r.stderr); sys.exit(2)
if gram:
    regen_parser()
try:
    p_rc, p_out, p_t = demo()
finally:
    sh("git checkout -- .")
    if gram:
        regen_parser()
print(f"{sid}: clean rc={c_rc} [{c_out}] ({c_t}s); patched rc={p_rc} [{p_out}] ({p_t}s)")
ok = c_rc == 0 and c_out.startswith("PASS") and p_rc == 1 and p_out.startswith("FAIL")
if not ok:
    print("NOT CONFIRMED"); sys.exit(1)
os.makedirs(dst, exist_ok=True)
shutil.copyfile(f"{seed}/change{k}.diff", f"{dst}/patch.diff")
shutil.copyfile(f"{seed}/demo{k}.py", f"{dst}/demo.py")
if os.path.exists(f"{seed}/notes{k}.md"):
    shutil.copyfile(f"{seed}/notes{k}.md", f"{dst}/notes.md")
files = sorted({l[6:] for l in patch.splitlines() if l.startswith("+++ b/")})
meta = {
    "property": prop,
    "id": sid,
    "files": files,
    "origin": "independent sub-agent given only the property text and a scratch worktree" + (" (second round)" if len(sys.argv) > 4 else ""),
    "needs_to_manifest": "see notes.md",
    "confirmed": {
        "how": f"scratch worktree {wt} at /repo HEAD: demo on the clean tree, `git apply`, demo again, `git checkout -- .`"
        + (" (parser.py regenerated from the grammar each time)" if gram else ""),
        "clean": c_out,
        "patched": p_out,
    },
    "tests": "as reported by the sub-agent in notes.md",
    "expect": "detected",
}
json.dump(meta, open(f"{dst}/meta.json", "w"), indent=1)
print("imported", dst)
