#!/bin/bash
# Import the three changes an agent left in /tmp/wt/R<round>-<PROP>/_seed, remove the worktree, evaluate them.
# usage: tools/ingest.sh PROP ROUND
P=$1; R=$2; OFF=$(( (R-1)*3 ))
cd /verif
for k in 1 2 3; do
  if [ -f /tmp/wt/R$R-$P/_seed/change$k.diff ]; then
    /venv/bin/python tools/import_seed.py $P $k /tmp/wt/R$R-$P $((k+OFF)) 2>&1 | tail -2 | cut -c1-260
    /venv/bin/python - <<PY
import json
p='/verif/seeded/$P-$((k+OFF))/meta.json'
try:
    m=json.load(open(p)); m['round']=$R; json.dump(m,open(p,'w'),indent=1)
except FileNotFoundError:
    print("not imported:", p)
PY
  fi
done
git -C /repo worktree remove --force /tmp/wt/R$R-$P
/venv/bin/python -m sverif seeded --prop $P --all-props -j 8 2>&1 | grep -E "SEEDED $P-($((1+OFF))|$((2+OFF))|$((3+OFF))) |SEEDED $P:" -A2 | cut -c1-300
