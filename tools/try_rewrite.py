"""Run the 20 quick checks on one whole-tree rewrite (sverif/autorefactor.py) and list every new finding.
usage: /venv/bin/python tools/try_rewrite.py NAME [PROP ...]"""
import sys, os
sys.path.insert(0, os.path.dirname(os.path.dirname(os.path.abspath(__file__))))
from concurrent.futures import ProcessPoolExecutor
from sverif import autorefactor
from sverif.selftest import _run_one

def main():
    name = sys.argv[1]
    props = sys.argv[2:] or [f"C{i:02d}" for i in range(1, 21)]
    ov = autorefactor.overlay_for(name)
    with ProcessPoolExecutor(max_workers=16) as ex:
        base = list(ex.map(_run_one, [(p, None) for p in props]))
        res = list(ex.map(_run_one, [(p, ov) for p in props]))
    bad = 0
    for p, b, r in zip(props, base, res):
        if r[0] != "ok":
            bad += 1
            print(f"{p} {r[0]}: {r[1][:300]}")
            continue
        bk = {k for (_, k, _) in b[1]}
        for rule, key, msg in r[1]:
            if key not in bk:
                bad += 1
                print(f"{p} NEW [{rule}] {msg[:300]}")
    print(f"{name}: {bad} problems over {len(props)} properties, {len(ov)} files rewritten")

if __name__ == "__main__":
    main()
