#!/bin/bash
# Check that whole-tree rewrites of sverif/autorefactor.py preserve behaviour: write the composed rewrites into a scratch
# worktree of /repo (outside /repo and /verif), run the pinned suite there against the worktree's sources, compare the
# failure set with the recorded baseline, remove the worktree.
# usage: tools/validate_rewrites.sh NAME [NAME...]
set -u
WT=/tmp/wt/rewrite-$$
mkdir -p /tmp/wt
git -C /repo worktree add -q --detach "$WT" HEAD || exit 2
cp /repo/src/scenic/syntax/parser.py "$WT/src/scenic/syntax/parser.py"
cd /verif && /venv/bin/python - "$WT" "$@" <<'PY' || { git -C /repo worktree remove --force "$WT"; exit 2; }
import sys, os, ast
sys.path.insert(0, "/verif")
from sverif import autorefactor
wt, names = sys.argv[1], sys.argv[2:]
n = 0
for rel in autorefactor.python_files(wt):
    src = open(os.path.join(wt, rel), encoding="utf-8").read()
    tree = ast.parse(src)
    for name in names:
        tree = autorefactor.TRANSFORMS[name](tree)
        ast.fix_missing_locations(tree)
        tree = ast.parse(ast.unparse(tree))
    new = ast.unparse(tree) + "\n"
    compile(new, rel, "exec")
    if new != src:
        n += 1
    open(os.path.join(wt, rel), "w", encoding="utf-8").write(new)
print(f"rewrote {n} files with {names}")
PY
cd "$WT" || exit 2
LOG=/tmp/rewrite-suite-$$.log
PYTHONPATH="$WT/src" /venv/bin/python -m pytest -ra -q -p no:cacheprovider --timeout=900 --continue-on-collection-errors > "$LOG" 2>&1
grep -E '^(FAILED|ERROR) ' "$LOG" | awk '{print $2}' | sort -u > /tmp/rewrite-failures-$$.txt
echo "summary: $(tail -1 "$LOG")"
NEW=$(comm -13 /verif/tools/baseline_failures.txt /tmp/rewrite-failures-$$.txt)
cd /verif
git -C /repo worktree remove --force "$WT"
if [ -n "$NEW" ]; then echo "NEW FAILURES:"; echo "$NEW"; exit 1; fi
echo "no failures beyond the baseline always-fail tests"
