#!/venv/bin/python
"""Record in meta.json what the check of the change's own property said the first time it saw the change (before any
strengthening) and which rule reports it now.  usage: set_first.py <id> detected|missed [rule-now]"""
import json, sys
sid, first = sys.argv[1], sys.argv[2]
p = f"/verif/seeded/{sid}/meta.json"
m = json.load(open(p))
m["first_evaluation"] = first
if len(sys.argv) > 3:
    m["reported_by"] = sys.argv[3:]
json.dump(m, open(p, "w"), indent=1)
