#!/usr/bin/env python3
"""Regenerate /verif/MANIFEST.json from the table below (kept in one place so it stays valid)."""

import json
import os

HERE = os.path.dirname(os.path.dirname(os.path.abspath(__file__)))

PY = "/venv/bin/python"

# property -> (technique, claim text, design ref)
CLAIMS = {
    "C01": (
        "AST dataflow over all sampleGiven/clone implementations + shape/path rules on the rejection loop",
        "Decides structural necessary conditions of one-draw-per-value and of conditioning on the checked sample: draw-once typing of all "
        "sampleGiven bodies against constructor dependency chains, memoisation shape of Samplable.sample/sampleAll, rejection-loop shape "
        "(activation once per call, accepted sample = checked sample, attempt counter), clone/resample reconstruction, weight/option alignment. "
        "Does NOT decide numerical equality of probabilities.",
        "DESIGN.md section 3 C01",
    ),
    "C02": (
        "three-valued guard evaluation over SampleChecker classes + coverage/polarity rules + one-shot-iterator dataflow",
        "Decides that only optional/inactive requirements can be skipped by any checker (three-valued evaluation of every drop/skip construct), "
        "which requirement classes may be optional, polarity of the built-in requirement predicates, coverage of generateDefaultRequirements "
        "over all objects/pairs, single-use iterator reuse, and accepted-sample = checked-sample. Does NOT decide geometric correctness of the predicates.",
        "DESIGN.md section 3 C02",
    ),
}

NOT_YET = {}


def main():
    with open(os.path.join(HERE, "properties.jsonl")) as f:
        props = [json.loads(l)["id"] for l in f if l.strip()]
    checks = []
    for p in props:
        if p not in CLAIMS:
            continue
        tech, text, ref = CLAIMS[p]
        checks.append(
            {
                "property_id": p,
                "quick_cmd": f"{PY} -m sverif check {p} --tier quick",
                "thorough_cmd": f"{PY} -m sverif check {p} --tier thorough",
                "evidence_file": f"/verif/evidence/{p}.json",
                "replay_cmd_template": f"{PY} -m sverif replay {{path}}",
                "engine": "sverif",
                "level_claimed": {"category": "other", "text": text, "design_ref": ref},
                "level_note": "Trusted base: CPython ast/symtable, pegen's grammar parser, the frozen classification tables in the checker "
                "(each entry carries its reason), documented semantics of third-party libraries. Only the named structural clauses are decided, "
                "never the behaviour itself.",
                "technique": "static analysis: " + tech,
            }
        )
    na = []
    for p in props:
        if p not in CLAIMS:
            na.append({"property_id": p, "reason": NOT_YET.get(p, "no sound static rule has been armed for this property yet in this round; see DESIGN.md section 3 for the planned clauses")})
    man = {
        "version": 1,
        "setup_cmd": f"{PY} -m compileall -q sverif",
        "hooks": {
            "guard": "SCENIC_VERIF",
            "enable": "none needed: the checks are purely static and read /repo's working tree; no instrumentation exists in /repo",
            "baseline_off_cmd": "cd /repo && /venv/bin/python -m pytest -ra -q -p no:cacheprovider --timeout=900 --continue-on-collection-errors",
            "source_commits": [],
            "add_only": True,
        },
        "engines": [
            {
                "name": "sverif",
                "path": "/verif/sverif",
                "serves_properties": sorted(CLAIMS),
                "kind_free_text": "repository-specific static analysis (Python ast, scoped name resolution, class/MRO model, statement CFG, "
                "three-valued guard evaluation, linear forms, pegen grammar IR, RST docs reader); never imports scenic",
            }
        ],
        "checks": checks,
        "not_applicable": na,
        "notes": "Every check reads /repo's current sources on each run. Exit 0 = clauses hold; exit 1 + VIOLATION = a finding not listed in "
        "known_findings.json; exit 2 + ANALYSIS-ERROR = an anchor vanished or an instance floor was not met (never a silent pass).",
    }
    with open(os.path.join(HERE, "MANIFEST.json"), "w") as f:
        json.dump(man, f, indent=1)
        f.write("\n")
    print(f"{len(checks)} checks, {len(na)} not applicable")


if __name__ == "__main__":
    main()
