#!/usr/bin/env python3
"""Regenerate /verif/MANIFEST.json from the table below (kept in one place so it stays valid)."""

import json
import os

HERE = os.path.dirname(os.path.dirname(os.path.abspath(__file__)))

PY = "/venv/bin/python"

# property -> (technique, claim text, design ref)
CLAIMS = {
    "C01": (
        "AST dataflow over all sampleGiven/clone implementations + shape/path rules on the rejection loop",
        "Decides structural necessary conditions of one-draw-per-value and of conditioning on the checked sample: draw-once typing of all "
        "sampleGiven bodies against constructor dependency chains, memoisation shape of Samplable.sample/sampleAll, rejection-loop shape "
        "(activation once per call, accepted sample = checked sample, attempt counter), clone/resample reconstruction, weight/option alignment, and (shared with C05) that operator shortcuts are identities and that operands and nested container literals are lifted. "
        "Does NOT decide numerical equality of probabilities.",
        "DESIGN.md section 3 C01",
    ),
    "C02": (
        "three-valued guard evaluation over SampleChecker classes + coverage/polarity rules + one-shot-iterator dataflow",
        "Decides that only optional/inactive requirements can be skipped by any checker (three-valued evaluation of every drop/skip construct), "
        "which requirement classes may be optional, polarity of the built-in requirement predicates, coverage of generateDefaultRequirements "
        "over all objects/pairs, single-use iterator reuse, accepted-sample = checked-sample, and the structural soundness conditions of the predicates the requirements evaluate (shortcut polarity and planar fast paths of C04, set-algebra truth tables of C16, occluder monotonicity and plumbing of C17). Does NOT decide numerical geometric correctness of the predicates.",
        "DESIGN.md section 3 C02",
    ),
    "C03": (
        "lineage dataflow of weighted choices + sampler membership/height rules + operand-interface typing",
        "Decides that population and weights of every weighted piece choice derive from the same sequence under the same filters, that the "
        "generic intersection/difference/union samplers test membership in all operands (with the 1 - 1/k multiplicity correction), that planar "
        "samplers keep the region's height, that sampler code reads only attributes every Region has, that sibling ray queries of one function agree on their options, that a cached prism is reused only when its z-interval contains the requested one, and that sampling geometry is not narrowed to single precision. Does NOT decide uniformity statistically.",
        "DESIGN.md section 3 C03",
    ),
    "C04": (
        "approximation-kind abstract domain (OVER/UNDER/DIST by provenance) over every early return of the overlap/containment tests",
        "Decides shortcut polarity: every constant early return of MeshVolumeRegion.intersects/containsObject, footprint containment and the "
        "planar-box fast paths is dominated by a guard whose provenance-classified quantities prove that answer (radii and distances must be measured from the same reference point; an extent refutes containment only if a real point of the operand attains it), every computed early answer is one of a frozen list of exact predicates, precomputed shape data is moved with its own transform; fall-through paths end in the "
        "exhaustive computation; a positive surface gap is reported as minimum distance only for convex operands or after the exact overlap test. Does NOT decide numerical agreement with exact geometry.",
        "DESIGN.md section 3 C04",
    ),
    "C05": (
        "forwarding analysis of lifting decorators, G3 reconstruction of evaluateInner, identity table, interval-arithmetic LinForm table, None-flow",
        "Decides that lifting helpers forward the complete argument list, that container literals are converted recursively before they are tested for randomness, that evaluateInner rebuilds objects through their own constructor, that "
        "algebraic shortcuts are true identities guarded by non-laziness, that support intervals follow interval arithmetic, never compute on "
        "unknown bounds and use only monotone wrappers from an allow-list. Does NOT decide value equality with CPython on all expression trees.",
        "DESIGN.md section 3 C05",
    ),
    "C06": (
        "manual<->code table extraction (RST reader + path enumeration of specifier functions), def-use of helpers, finite abstract interpretation of the priority fold",
        "Decides that every built-in specifier's (property, priority, modifies, dependencies) equals the reference manual, that declared "
        "dependencies cover what helpers read, that class defaults declare exactly the dependencies of what they evaluate, that the dependency search reports every cycle, that error paths of resolution are well-formed, and that the priority fold is order independent "
        "over an abstract domain of priorities. Does NOT decide the values computed by helpers.",
        "DESIGN.md section 3 C06",
    ),
    "C07": (
        "LinForm template of the six directional specifiers, name-derived sign table of corners, compiler->veneer and grammar->AST binding, parent-frame def-use",
        "Decides the bounding-box gap formula of left/right/ahead/behind/above/below as linear forms, the signs of all side/corner properties, "
        "that each emitted runtime call binds to its veneer definition, that grammar actions bind to syntax-node fields, and that facing-family "
        "helpers read parentOrientation and apply it as a whole rotation (not one Euler angle), that the angle-valued operators return normalised angles, and that no argument's type is tested after it was coerced to a plain vector / scalar. Does NOT decide frame correctness of beyond/offset along/following numerically.",
        "DESIGN.md section 3 C07",
    ),
    "C08": (
        "abstract interpretation over ast.cmpop classes, bound-polarity tags from supportInterval, subset derivation grammar for conditionTo, loop-variant liveness",
        "Decides that bounds are inferred only from hard `require` statements, that only <,<=,== yield bounds, that a unary matcher refuses calls with further operands, that the abs-bound algebra is right on every path (symbolic path enumeration), that erosion uses LOWER-UPPER and growth UPPER bounds, that a visibility bound uses the viewer's own view distance, that the buffered bounding box grows on both sides, that every conditioned position draws from "
        "the base restricted by intersections only (at the base's height), that voxel retry loops vary what they retry, that voxel dilation has "
        "room and consistent units, and that unknown bounds are not used arithmetically. Does NOT decide geometric over-approximation numerically.",
        "DESIGN.md section 3 C08",
    ),
    "C16": (
        "dispatch/override/typing rules over the whole Region hierarchy (G1, G2, G3), z-propagation, identity table",
        "Decides double-dispatch hygiene (triedReversed forwarding, safe reversed retries), override signature agreement, unresolved names/attributes, "
        "operand-interface conformance, height propagation of planar results, reconstruction of lazy regions, nearest-hit selection and the "
        "identity/annihilator laws of everywhere/nowhere, membership in intersection/union/difference regions as truth tables over the operand queries, that nearest-hit selection minimises a distance, that sizes are compared within one dimensionality, and the containment test of the footprint cache. Does NOT decide mesh booleans or distances numerically.",
        "DESIGN.md section 3 C16",
    ),
    "C09": (
        "PEG grammar IR analysis (keyword-marker closure of Scenic alternatives), visitor classification of the compiler, located-node audit of grammar actions, structural comparison with CPython's own PEG grammar",
        "Decides that no Scenic alternative exposed to inherited Python rules can capture plain Python without a Scenic keyword (frozen, "
        "reasoned exceptions), that the compiler's Python-node visitors are the identity outside Scenic contexts and only perform the documented "
        "rewrites with copied locations, that every grammar action building a located node passes its location, and that the Python part of the grammar has CPython's alternatives in CPython's order with helper arguments in the same positions (compared with CPython 3.11's own PEG grammar, frozen deviations listed), and that the parser helper assembling ast.arguments keeps Python's order of parameter groups. Does NOT decide equality "
        "with CPython's AST over a corpus (differential testing).",
        "DESIGN.md section 3 C09",
    ),
    "C10": (
        "exhaustiveness of grammar-built nodes vs compiler visitors, raise/assert audit, token typing of grammar actions and parser helpers, pegen nullable analysis",
        "Decides that every node the grammar can build is compiled, that parser helpers and the compiler raise only Scenic syntax errors, that "
        "token-typed values are accessed only through TokenInfo fields (error construction cannot fail), that no repetition ranges over a "
        "nullable item, that error actions do not index possibly-empty components and error reporting does not index past the end of a file, that partial front-end operations (tokenizer line lookup, literal evaluation and numeric conversion of token text, literal concatenation) are protected, that emitted try statements are ones compile() accepts, that variables bound to list-valued grammar groups are not handed on as values, that visitors compile every child they re-embed, that temporal nodes outside propositions are syntax errors, that no keyword-only alternative shadows a longer one in an ordered choice, and that the veneer is deactivated in a finally. Does NOT decide totality over all byte strings.",
        "DESIGN.md section 3 C10",
    ),
    "C11": (
        "five-hop operator chain agreement (grammar -> syntax node -> compiler -> veneer -> propositions -> rv_ltl), class tables, monitor protocol and staleness pairing",
        "Decides operator identity and operand order through all hops for every temporal/Boolean operator, the temporal/non-temporal class "
        "table with Boolean evaluate(), the monitor protocol (reject on FALSE first in the step, falsy at stop, TRUE initially) and that "
        "requirements added at run time get monitors. Does NOT decide rv_ltl's finite-trace semantics.",
        "DESIGN.md section 3 C11",
    ),
    "C12": (
        "statement-order tables over Simulation._run and DynamicScenario._step cross-checked with the manual's numbered list",
        "Decides the order and once-per-step multiplicity of the landmarks of a time step in code and manual, the once-per-step logs, the schedule-order keying of the executed actions and the "
        "schedule check, the written comparisons of the step limit and the scenario time limit, the exact seconds-to-steps conversion, and that statements executed at run time are filed by their kind. Does NOT decide the exact step at which each duration construct fires for every program.",
        "DESIGN.md section 3 C12",
    ),
    "C13": (
        "parity composition of compiler ordering and runtime scan, iterator-lifetime and suspension-site rules",
        "Decides that the latest enabled interrupt clause wins (compiler reversal x runtime scan parity), that the compiler's re-entrant state is saved / restored and emitted break/continue/return are re-visited in the enclosing context, that blocks resume where they "
        "stopped, that every suspension is followed by an invariant check (with the agent as its subject), that guards are checked at start -- the delayed check of the top-level scenario on every simulation -- and that abandoned sub-behaviours "
        "are stopped. Does NOT decide behaviour for every interleaving.",
        "DESIGN.md section 3 C13",
    ),
    "C14": (
        "global write/reset accounting, context-manager restore rule, definite-assignment of cleanup reads, must-use token analysis",
        "Decides that every veneer state global is reset in the phase that writes it, that per-run state of the reused top-level scenario is reset, that context managers restore in finally, that the "
        "simulation cleanup cannot be skipped or crash on unassigned attributes, that recorders empty what they accumulated on every path, that modules of a failed compilation are purged, that a scenario marked as running is registered for cleanup or unmarked when its start fails, that override undo records are kept on every path, and that "
        "requirement evaluation restores what it rebinds. Does NOT decide third-party simulator cleanup.",
        "DESIGN.md section 3 C14",
    ),
    "C15": (
        "inter-procedural unordered->ordered taint into the sampling order, RNG save/restore bracket, private generator seeds",
        "Decides that no hash-ordered collection reaches Scenario.dependencies or the other order sinks, that only sampling functions draw from the global generators, that requirement checking is bracketed by save/restore of "
        "both RNGs, and that internal generators use constant seeds. Does NOT decide bit-identity of third-party numerics.",
        "DESIGN.md section 3 C15",
    ),
    "C17": (
        "frame typestate over canSee, occluder monotonicity, wrapper/region agreement",
        "Decides the translate-then-rotate order of frames in visibility, that occluders can only remove rays / return False, that recorded target hits lie within the visible distance, that canSee and "
        "visibleRegion use the same pose and angles, and the occluder plumbing. Does NOT decide ray density sufficiency.",
        "DESIGN.md section 3 C17",
    ),
    "C18": (
        "writer/reader format symmetry, fail-closed read dataflow, error-conversion wrapping, RNG-free closure of dependency-serialised nodes, sign domain",
        "Decides struct format/size/tag symmetry of all codecs and headers, that every read fails closed, that decoding errors are "
        "SerializationErrors, that dependency-serialised nodes are deterministic, that run-time samples are recorded and no run-time code draws from the global generators directly, that the record and replay streams are independent and symmetric and go through the conditioned object, and that divergence is a "
        "magnitude of the difference compared with the tolerance (or an exact comparison) on every path, and that the options hash keeps distinct option values distinct and skips no key. Does NOT decide round-trip equality for all programs.",
        "DESIGN.md section 3 C18",
    ),
    "C19": (
        "guard-dominance and weight-propagation rules over _invokeSubBehavior, shuffle loop shape, runtime sampling sequence",
        "Decides that only enabled items enter the weighted choice with their own weights (also when keys and weights are zipped), that the schedule keyword is forwarded unconditionally, that choose runs one and shuffle each exactly once, "
        "that an empty eligible set rejects, that eligibility is evaluated anew at every pick, that run-time distributions sample immediately from a fresh map and are recorded on every path, and that no run-time code restores or reseeds the generators. Does NOT "
        "decide numerical probabilities.",
        "DESIGN.md section 3 C19",
    ),
    "C20": (
        "must-pass-through guard of the cache, byte-layout agreement, reconnection coverage over the class hierarchy, finite interpretation of lane-id arithmetic",
        "Decides that the cached network is loaded only after version, map-digest and options-digest checks computed from the file bytes and "
        "all options, that writer and reader agree on the layout, that every element-referencing class is reconnected, that the lane-id arithmetic "
        "choosing left / right neighbours is reciprocal for all ids in -4..4 (finite interpretation), that a lane's neighbours are collected from all its sections, that the tolerance neighbourhood of a lookup is "
        "the Euclidean disc, and that the aggregate regions handed to the Network are unions of its element collections. Does NOT decide anything about concrete maps (geometry of lookups, tangents).",
        "DESIGN.md section 3 C20",
    ),
}

NOT_YET = {}


def main():
    with open(os.path.join(HERE, "properties.jsonl")) as f:
        props = [json.loads(l)["id"] for l in f if l.strip()]
    checks = []
    for p in props:
        if p not in CLAIMS:
            continue
        tech, text, ref = CLAIMS[p]
        checks.append(
            {
                "property_id": p,
                "quick_cmd": f"{PY} -m sverif check {p} --tier quick",
                "thorough_cmd": f"{PY} -m sverif check {p} --tier thorough",
                "evidence_file": f"/verif/evidence/{p}.json",
                "replay_cmd_template": f"{PY} -m sverif replay {{path}}",
                "engine": "sverif",
                "level_claimed": {"category": "other", "text": text, "design_ref": ref},
                "level_note": "Trusted base: CPython ast/symtable, pegen's grammar parser, the frozen classification tables in the checker "
                "(each entry carries its reason), documented semantics of third-party libraries. Only the named structural clauses are decided, "
                "never the behaviour itself.",
                "technique": "static analysis: " + tech,
            }
        )
    na = []
    for p in props:
        if p not in CLAIMS:
            na.append({"property_id": p, "reason": NOT_YET.get(p, "no sound static rule has been armed for this property yet in this round; see DESIGN.md section 3 for the planned clauses")})
    man = {
        "version": 1,
        "setup_cmd": f"{PY} -m compileall -q sverif",
        "hooks": {
            "guard": "SCENIC_VERIF",
            "enable": "none needed: the checks are purely static and read /repo's working tree; no instrumentation exists in /repo",
            "baseline_off_cmd": "cd /repo && /venv/bin/python -m pytest -ra -q -p no:cacheprovider --timeout=900 --continue-on-collection-errors",
            "source_commits": [],
            "add_only": True,
        },
        "engines": [
            {
                "name": "sverif",
                "path": "/verif/sverif",
                "serves_properties": sorted(CLAIMS),
                "kind_free_text": "repository-specific static analysis (Python ast, scoped name resolution, class/MRO model, statement CFG, "
                "three-valued guard evaluation, linear forms, pegen grammar IR, RST docs reader); never imports scenic",
            }
        ],
        "checks": checks,
        "not_applicable": na,
        "notes": "Every check reads /repo's current sources on each run. Exit 0 = clauses hold; exit 1 + VIOLATION = a finding not listed in "
        "known_findings.json; exit 2 + ANALYSIS-ERROR = an anchor vanished or an instance floor was not met (never a silent pass).",
    }
    with open(os.path.join(HERE, "MANIFEST.json"), "w") as f:
        json.dump(man, f, indent=1)
        f.write("\n")
    print(f"{len(checks)} checks, {len(na)} not applicable")


if __name__ == "__main__":
    main()
