#!/bin/bash
# Run the repository's pinned suite (serially) and compare the failure set with the recorded baseline.
# usage: tools/run_suite.sh [pytest args...]   (default: whole suite)
cd /repo || exit 2
LOG=${SUITE_LOG:-/tmp/suite.log}
/venv/bin/python -m pytest -ra -q -p no:cacheprovider --timeout=900 --continue-on-collection-errors "$@" > "$LOG" 2>&1
grep -E '^(FAILED|ERROR) ' "$LOG" | awk '{print $2}' | sort -u > /tmp/suite_failures.txt
echo "summary: $(tail -1 "$LOG")"
NEW=$(comm -13 /verif/tools/baseline_failures.txt /tmp/suite_failures.txt)
if [ -n "$NEW" ]; then echo "NEW FAILURES:"; echo "$NEW"; exit 1; fi
echo "no failures beyond the 15 baseline always-fail tests"
