"""Print a function of a file after a whole-tree rewrite (and after model normalisation with --norm).
usage: tools/show_rewrite.py NAME relpath QUALNAME [--norm]"""
import sys, os, ast
sys.path.insert(0, os.path.dirname(os.path.dirname(os.path.abspath(__file__))))
from sverif import autorefactor
name, rel, qual = sys.argv[1:4]
ov = autorefactor.overlay_for(name, only={rel})
src = ov[rel]
tree = ast.parse(src)
if "--norm" in sys.argv:
    from sverif import model
    model.SrcModel  # ensure SIGS computed lazily by the model
    m = model.SrcModel(overlay=ov)
    tree = m.by_path[rel].tree if hasattr(m, "by_path") else tree
def find(node, parts):
    for ch in ast.iter_child_nodes(node):
        if isinstance(ch, (ast.FunctionDef, ast.ClassDef, ast.AsyncFunctionDef)) and ch.name == parts[0]:
            return ch if len(parts) == 1 else find(ch, parts[1:])
        if not isinstance(ch, (ast.FunctionDef, ast.ClassDef, ast.AsyncFunctionDef)):
            r = find(ch, parts)
            if r is not None:
                return r
fn = find(tree, qual.split("."))
print(ast.unparse(fn))
