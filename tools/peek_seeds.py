"""Evaluate the change files an agent has produced so far (not yet imported) with the check of their property.
usage: tools/peek_seeds.py ROUND PROP [PROP...]"""
import sys, os, glob
sys.path.insert(0, os.path.dirname(os.path.dirname(os.path.abspath(__file__))))
from sverif import seeded
rnd, props = sys.argv[1], sys.argv[2:]
for p in props:
    base = seeded._run_many(([p], None))[p]
    bk = {k for (_, k, *_r) in base[1]} if base[0] == "ok" else set()
    for path in sorted(glob.glob(f"/tmp/wt/R{rnd}-{p}/_seed/change*.diff")):
        ov, why = seeded.overlay_of(path)
        if ov is None:
            print(p, os.path.basename(path), "does not apply:", (why or "")[:100]); continue
        st, data = seeded._run_many(([p], ov))[p]
        if st != "ok":
            print(p, os.path.basename(path), st, data[:200]); continue
        new = [(r, m) for (r, k, m, f, l) in data if k not in bk]
        print(p, os.path.basename(path), "DETECTED" if new else "missed", sorted({r for r, _ in new}))
        for r, m in new[:2]:
            print("      ", r, m[:160])
