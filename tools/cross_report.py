"""Print the new findings a property's check raises on a seeded change of another property.
usage: tools/cross_report.py SEED-ID PROP [PROP...]"""
import sys, os
sys.path.insert(0, os.path.dirname(os.path.dirname(os.path.abspath(__file__))))
from sverif import seeded
sid, props = sys.argv[1], sys.argv[2:]
ov, why = seeded.overlay_of(os.path.join(seeded.SEEDED, sid, "patch.diff"))
if ov is None:
    sys.exit(f"stale: {why}")
base = seeded._run_many((props, None))
res = seeded._run_many((props, ov))
for p in props:
    st, data = res[p]
    if st != "ok":
        print(p, st, data[:300]); continue
    bk = {k for (_, k, *_r) in base[p][1]} if base[p][0] == "ok" else set()
    for rule, key, msg, file, line in data:
        if key not in bk:
            print(f"{p} [{rule}] {file}:{line} {msg[:500]}")
