#!/usr/bin/env python3
"""Regenerate /verif/known_findings.json.

* `KNOWN`  -- genuine defects recorded rather than repaired (keyed by rule + construct; suppress exactly that finding).
* `FIXED`  -- genuine defects repaired by a `fix:` commit in /repo (looked up by commit subject so that hashes stay right);
              these entries suppress nothing.
Never run by a check; the file is only read at check time.
"""

import json
import os
import subprocess

HERE = os.path.dirname(os.path.dirname(os.path.abspath(__file__)))

KNOWN = [
    {
        "property": "C06",
        "rule": "C06.fold",
        "key": "C06.fold|src/scenic/core/object_types.py|Constructible._resolveSpecifiers|order-dependent fold: rank pattern normal [0, 1, 1] modifying None",
        "what_fails": "specifiers `at X, visible, not visible` (priorities 1,3,3 for position) are accepted while `visible, not visible, at X` raises "
        "'specified twice with the same priority': tie detection depends on the written order (F30); not repaired because either resolution "
        "(always raise / never raise for a masked tie) changes which programs are accepted",
    },
    {
        "property": "C07",
        "rule": "C07.facing",
        "key": "C07.facing|src/scenic/syntax/veneer.py|ApparentlyFacing.helper|ApparentlyFacing ignores parentOrientation",
        "what_fails": "`apparently facing H from P` with a non-global parentOrientation (e.g. parent yaw 30 deg) gives global heading 30 deg + H: the helper "
        "computes the yaw in the global frame although yaw is relative to parentOrientation (F28); a repair needs a decision for 3-D parents",
    },
    {
        "property": "C14",
        "rule": "C14.rebind",
        "key": "C14.rebind|src/scenic/core/requirements.py|PendingRequirement.compile.closure|requirement closure rebinding not restored",
        "what_fails": "after a scene is generated, the program's module namespace / closure cells still hold the sampled values bound while the last requirement "
        "was evaluated (a scene whose soft requirement was inactive gets behaviours seeing the previous sample's value) (F26); restoring the "
        "bindings changes what later statements of the same module observe, so it is recorded rather than repaired",
    },
    {
        "property": "C18",
        "rule": "C18.deterministic",
        "key": "C18.deterministic|src/scenic/core/object_types.py|Point.sampleGiven|Point.sampleGiven -> PositionMutator.appliedTo draws random.gauss",
        "what_fails": "a scene with `mutate` encodes only the dependencies of each object; decoding re-runs Point.sampleGiven, which draws fresh Gaussian "
        "mutation noise, so the decoded scene differs from the encoded one (F20); repairing it needs a format change (storing the noise)",
    },
]

# subject prefix (after 'fix: ') -> (properties, rule, what failed)
FIXED = [
    ("two discs at different heights were reported as intersecting", ["C16"], "C16.z", "CircularRegion((0,0,0), 5).intersects(CircularRegion((0,0,1), 5)) was True although the two parallel discs share no point and their intersect() is empty: the 3-D distance of the centres was compared with the sum of the radii (F66; found while writing the planar-metric rule for a seeded change)"),
    ("locals of a modular scenario were sampled in string-hash order", ["C15"], "C15.sinks", "a scenario whose setup block binds several random values to locals gave different scenes and iteration counts under different PYTHONHASHSEED values: _makeLocalsSnapshot iterated the frozenset of local names the compiler emits (F65; reported by an independent agent)"),
    ("'require[p]' with a non-decimal or complex literal escaped as ValueError", ["C10"], "C10.partial", "`require[0x1] C` and `require[1j] C` escaped from the parser with ValueError (float() of the token text) (F61; reported by an independent agent)"),
    ("'require monitor M() as name' crashed the compiler", ["C10"], "C10.groups", "`require monitor M() as foo` failed with TypeError (invalid type in Constant: list): the optional `as <name>` group had no action, so the name was the list of matched items (F62; reported by an independent agent)"),
    ("'else' in a try-interrupt statement without 'except' was dropped or crashed the compiler", ["C10"], "C10.partial", "`try / interrupt when / else / finally` without `except` escaped with ValueError (Try has orelse but no except handlers), and without `finally` the else block was silently discarded (F63; reported by an independent agent)"),
    ("'return <Scenic expression>' inside an interrupt block crashed the compiler", ["C10", "C13"], "C10.children", "`return 3 deg` inside an interrupt handler escaped with TypeError from compile(): visit_Return embedded the returned expression without compiling it (F64; reported by an independent agent)"),
    ("minimum distance between overlapping solids was positive when a non-convex one encloses the other", ["C04"], "C04.distance", "`distance from A to B` for an object B lying strictly inside a non-convex object A (no surface contact) was positive (the gap between the two surfaces) although the solids overlap: FCL's distance query on non-convex meshes measures surfaces (F60; found by reading the property's distance clause against MeshVolumeRegion.minimumDistanceTo)"),
    ("a precondition violation at the start of the top-level scenario left it marked as running", ["C14"], "C14.started", "after one simulation ended with a violated precondition of the top-level scenario (checked in DynamicScenario._start), every later simulation of the same compiled scenario failed `assert not self._isRunning`: the scenario was marked as running but not yet registered for cleanup (F59; noticed by an independent agent while seeding changes)"),
    ("re-check invariants inside try-interrupt with the agent, not None", ["C13"], "C13.invariants", "an invariant mentioning `self` raised AttributeError ('NoneType' object has no attribute ...) as soon as its behaviour took a step inside a try-interrupt statement: runTryInterrupt re-checked the invariants with None in place of the agent (F58; noticed by an independent agent while seeding changes)"),
    ("pruning bounds were inferred from soft requirements, termination conditions and records", ["C08"], "C08.sources", "`require[0.5] C`, `terminate when C`, `terminate simulation when C` and `record C` gave the objects distance / relative-heading relations as if C held in every scene, so pruning removed scenes the program allows (F57; noticed by an independent agent while seeding changes)"),
    ("a syntax error spanning a blank line inside brackets escaped as KeyError", ["C10"], "C10.partial", "`x = (1\\n\\n 2)` raised KeyError from the tokenizer's get_lines while the error text was assembled (F53; reported by an independent agent)"),
    ("invalid number literals and mixed bytes/str literals escaped as raw Python errors", ["C10"], "C10.partial", "`x = 01` escaped as a raw SyntaxError and `b\"a\" \"b\"` as TypeError: ast.literal_eval of token text was unprotected (F54; reported by an independent agent)"),
    ("a temporal operator nested inside an ordinary expression crashed the compiler", ["C10"], "C10.partial", "`require x if y else (always z)` failed with AssertionError 'needs visitor in compiler' (F55; reported by an independent agent)"),
    ("'require (always A) implies B' was rejected although the reference gives it as an example", ["C10"], "C10.partial", "the lookahead after a parenthesised temporal expression lacked `implies` (F56; reported by an independent agent)"),
    ("'beyond X by Y from Z' never used the orientation of Z", ["C07"], "C07.coerce", "`beyond X by Y [from Z]` always specified the global orientation as parentOrientation: Z was coerced to a plain vector before `isA(fromPt, OrientedPoint)`, contradicting the reference (F52; noticed by an independent agent while seeding changes)"),
    ("sub-scenarios of a previous simulation were still consulted at the start of the next one", ["C14"], "C14.runstate", "re-running a scenario whose compose block invokes a sub-scenario later than step 0 gave an extra record entry at step 0: the previous run's stopped sub-scenarios were still in _subScenarios (F51; found by the run-state inventory written for a seeded change)"),
    ("'terminate when' / 'terminate simulation when' / 'record' in the setup of a sub-scenario were treated as requirements", ["C12"], "C12.kinds", "`terminate when X` (or `record`) in the setup block of a dynamically invoked sub-scenario was filed as a temporal requirement and rejected the simulation while X was false (F50; noticed by an independent agent while seeding changes; an upstream test passed only because of the bug)"),
    ("break/continue/return in nested try-interrupt statements conclude the enclosing block", ["C13"], "C13.flags", "in a try-interrupt nested in a block of another one, `break` gave \"'break' outside loop\", `return` only left the outer block, and a `continue` was dropped when a later handler contained a nested statement (F49; found by an independent agent while seeding changes)"),
    ("DifferenceRegion.evaluateInner passed an orientation keyword", ["C16"], "C16.rebuild", "DifferenceRegion.evaluateInner(orientation=...) raised TypeError for lazy operands (F09)"),
    ("MeshRegion.projectVector picked the first ray hit", ["C16"], "C16.argmin", "`on <mesh>` projected onto the far face: argmin of a scalar norm is always 0 (F10)"),
    ("PolygonalFootprintRegion.containsRegionInner referred to an undefined name", ["C16"], "C16.names", "footprint.containsRegion(...) raised NameError `other` (F11)"),
    ("PolylineRegion.containsRegionInner used a nonexistent", ["C16"], "C16.names", "polyline.containsRegion(...) raised AttributeError `polygons` (F15)"),
    ("PolygonalRegion.union dropped triedReversed", ["C16"], "C16.dispatch", "union of a polygon with a lazy region recursed for ever (F27)"),
    ("VoxelRegion.containsRegionInner lacked the tolerance parameter", ["C16"], "C16.override", "VoxelRegion.containsRegion raised TypeError instead of NotImplementedError (F34)"),
    ("CircularRegion.distanceTo compared the point height with 0", ["C16"], "C16.z", "distance from a point at z=0 to a circle at z=5 ignored the height difference (F14)"),
    ("Workspace.intersects did not accept triedReversed", ["C16"], "C16.override", "X.intersects(workspace) through the reversed fallback raised TypeError (F36)"),
    ("Workspace.projectVector raised its result", ["C16"], "C16.delegate", "projecting onto a workspace raised TypeError (raise instead of return) (F37)"),
    ("polygon intersect/union/difference rebuilt their result at z=0", ["C16", "C03"], "C16.z", "set operations on polygons at z=5 produced regions at z=0 (F13)"),
    ("point-set intersection sampler required a circumcircle", ["C03"], "C03.operand", "sampling PointSetRegion ∩ PolygonalRegion raised AttributeError `circumcircle` (F16)"),
    ("intersecting two PointSetRegions recursed for ever", ["C16"], "C16.dispatch", "PointSetRegion.intersect(PointSetRegion) raised RecursionError (F35)"),
    ("OperatorDistribution.evaluateInner used an unbound name", ["C05"], "C05.rebuild", "a lazily evaluated operator call with keyword operands raised NameError `arg` (F02)"),
    ("Vector.cross bound the z component to the wrong name", ["C05", "C07"], "C05.names", "Vector.cross raised NameError `bz` (F18)"),
    ("vectorOperator dropped self when an argument needed lazy evaluation", ["C05"], "C05.lift", "vector operators with a delayed argument lost their receiver (TypeError: missing argument) (F19)"),
    ("X // 1 was simplified to X", ["C05"], "C05.shortcut", "Range(2.5, 2.9) // 1 sampled 2.7 instead of 2.0 (F38)"),
    ("support of -X and abs(X) did arithmetic on unknown", ["C05"], "C05.support", "supportInterval(-Normal(0,1)) raised TypeError (F29)"),
    ("occluder candidates were a one-shot iterator", ["C02", "C17"], "C02.oneshot", "every visibility requirement after the first had no occluders (F01)"),
    ("hypot was declared monotonic", ["C05", "C08"], "C05.support", "supportInterval(Vector(Range(-3,1),0,0).norm()) was (3.0, 1.0) (F21)"),
    ("_resolveSpecifiers error messages referred to an undefined name", ["C06"], "C06.errors", "'modified twice' error path raised NameError `name` (F31)"),
    ("requirement matcher read !=, is, in comparisons", ["C08"], "C08.cmpop", "`require (distance from o) != 7` pruned to distance <= 7 (F08)"),
    ("containment pruning retried voxel erosion with a constant pitch", ["C08"], "C08.progress", "retry loop could not terminate once VoxelRegion.mesh returned None (F12)"),
    ("an unknown visibility bound was None", ["C08"], "C08.none", "random visibleDistance + requireVisible + relative-heading bound crashed compilation with TypeError (F32)"),
    ("relative-heading pruning rebuilt the pruned region at z=0", ["C08"], "C08.subset", "relative-heading pruning of an object placed in a polygon at z != 0 moved it to z = 0 (F40)"),
    ("voxel dilation was clipped to the original grid", ["C08"], "C08.room", "_bufferOverapproximate never grew the view region, so visibility pruning removed feasible positions (F42)"),
    ("voxel buffering divided a length by the relative pitch", ["C08"], "C08.progress", "view regions with extents < 1 were under-buffered (F41)"),
    ("assignment/del/for targets containing a Scenic expression crashed the parser", ["C10"], "C10.raises", "`x deg = 5`, `(new Object) = 3`, `del a relative to b` raised ValueError instead of a syntax error (F24)"),
    ("f-string conversion check read lineno/col_offset of tokens", ["C10"], "C10.errargs", "f'{x!z}' raised AttributeError instead of a syntax error (F25)"),
    ("override statements and beyond specifiers were built without source locations", ["C09"], "C09.lineno", "an `override` statement on line 7 compiled to a call with lineno 1 (F43)"),
    ("f-string conversions (!r, !s, !a) crashed the parser on Python 3.12", ["C10", "C09"], "C10.errargs", "f'{x!r}' raised AttributeError ('TokenInfo' has no attribute 'decode') (F44)"),
    ("non-temporal `implies` could not be evaluated at run time", ["C11"], "C11.classes", "`require A implies B` executed in a compose block raised RuntimeError (F07)"),
    ("DynamicMonitorRequirement.__str__ read an attribute that was never set", ["C11"], "C11.classes", "str() of an unnamed dynamic temporal requirement raised AttributeError `ty` (F46)"),
    ("temporal requirements declared inside a compose block were never monitored", ["C11"], "C11.monitor", "`require always C` inside a sub-scenario's compose block was silently ignored; at top level it crashed with AttributeError (F47)"),
    ("inInitialScenario was never reset", ["C14"], "C14.globals", "compiling the same program twice in one process gave different scenarios (F23)"),
    ("cleanup of a failed simulation read self.agents", ["C14"], "C14.cleanup", "a simulator whose setup() raised before super().setup() left currentSimulation set (AttributeError in finally) (F33)"),
    ("an exception while cleaning up a simulation skipped endSimulation", ["C14"], "C14.cleanup", "an exception in destroy()/behaviour._stop() during cleanup left a simulation 'in progress' (F48)"),
    ("a second override of the same object dropped its undo record", ["C14"], "C14.override", "after two `override` statements on one object, properties from the second were never reverted (F03)"),
    ("requirement dependencies were gathered in sets", ["C15"], "C15.order", "requirement-only random values were sampled in a PYTHONHASHSEED/address dependent order (F22)"),
    ("point visibility rotated the absolute target position", ["C17"], "C17.frames", "a viewer at (10,0,0) facing west did not see (0,0,0), which its visibleRegion contains (F17)"),
    ("truncated integers and byte strings decoded silently", ["C18"], "C18.failclosed", "a 2-byte integer cut to 1 byte decoded to a different value (1567 -> 31) (F05)"),
    ("corrupted scene data escaped from readScene", ["C18"], "C18.errors", "a corrupted option index escaped as IndexError (F06)"),
    ("replay divergence of scalar properties was only detected in one direction", ["C18"], "C18.divergence", "a replayed value 1 below the recording was 'not diverged' at tolerance 0.5 (F04)"),
]


def main():
    log = subprocess.run(["git", "-C", "/repo", "log", "--format=%h %s"], capture_output=True, text=True).stdout.splitlines()
    fixes = {l.split(" ", 1)[1][len("fix: ") :]: l.split(" ", 1)[0] for l in log if " fix: " in l}
    out = []
    for e in KNOWN:
        out.append({**e, "status": "known"})
    missing = []
    for subj, props, rule, what in FIXED:
        hit = [(s, h) for s, h in fixes.items() if s.startswith(subj)]
        if not hit:
            missing.append(subj)
            continue
        for p in props:
            out.append({"property": p, "rule": rule, "key": f"{rule}|(fixed)", "what_fails": what, "status": "fixed", "commit": hit[0][1], "line": f"fixed: property={p} {hit[0][1]} {what}"})
    unlisted = [s for s in fixes if not any(s.startswith(x[0]) for x in FIXED)]
    with open(os.path.join(HERE, "known_findings.json"), "w") as f:
        json.dump({"findings": out}, f, indent=1)
        f.write("\n")
    print(f"{len([o for o in out if o['status']=='known'])} known, {len([o for o in out if o['status']=='fixed'])} fixed entries")
    if missing:
        print("NOT FOUND in /repo log:", missing)
    if unlisted:
        print("fix commits without an entry:", unlisted)


if __name__ == "__main__":
    main()
